"""C17 - mappings and sets are finite maps under any consistent hash.
Histories of 1-40 operations over a small key universe, with user hash functions from injective to constant and
equalities coarser than identity (congruence mod ke); every operation is applied to a randomly chosen EARLIER
version and all versions are observed at the end (len + lookup / membership of every key of the universe)."""
import os

from lib import core
from lib.runner import PropertyCheck

U = 9          # key universe 0..U-1 plus a few negatives / large keys


def universe():
    return list(range(U)) + [-1, -4, 100, 2 ** 64 + 1]


def z(n):
    return f'({n})'


def coq_list(xs):
    return '[' + '; '.join(xs) + ']'


class C17(PropertyCheck):
    id = 'C17'
    imports = ('From Coq Require Import List ZArith NArith String.\nFrom Xr Require Import Base.Res Base.Show Map.XMap Map.MapInst.\n'
               'Import ListNotations.\nOpen Scope Z_scope.\n'
               'Definition joinl (l : list string) : string := String.concat "#" l.\n')
    technique = 'Coq proof: bucketed table refines a finite map over key-equivalence classes for ANY consistent hash/eq; history-based differential correspondence'
    trusted = ['Rust HashMap<u64, bucket> modelled as an association list on the hash',
               'iteration order of HashMap is not modelled: observables are order-independent (len, lookups, membership)']
    assumptions = ['user hash / eq functions are pure and agree (equivalence, equal keys hash equally, hash within u64)']
    rule = ('histories of length 1-40 over keys 0..8 (+ negatives and a >64-bit key), equality = congruence mod ke in {1,2,3,5,huge}, '
            'hash = (k mod ke) mod hm with hm in {1 (constant),2,3,huge (injective)}; each op applied to a random earlier version; '
            'distinct = distinct history texts; non-trivial = history contains a collision (two inequivalent keys in one bucket) or an '
            'overwrite/removal of an equivalent-but-different key')

    def generate(self, rng, tier):
        return []

    def gen_map_history(self, rng):
        n = rng.randint(1, 40)
        keys = universe()
        ops = []
        for i in range(n):
            src = rng.randint(0, i)
            k = rng.choice(keys)
            v = rng.randint(-50, 50)
            r = rng.random()
            if r < 0.3:
                ops.append((src, 'set', k, v))
            elif r < 0.4:
                ops.append((src, 'set_default', k, v))
            elif r < 0.52:
                ops.append((src, 'pop', k))
            elif r < 0.64:
                ops.append((src, 'discard', k))
            elif r < 0.74:
                ops.append((src, 'update', [(rng.choice(keys), rng.randint(-50, 50)) for _ in range(rng.randint(0, 5))]))
            elif r < 0.82:
                ops.append((src, 'update_map', rng.randint(0, i)))
            elif r < 0.9:
                ops.append((src, 'upsert', [rng.choice(keys) for _ in range(rng.randint(0, 6))]))
            elif r < 0.97:
                ops.append((src, 'counter', [rng.choice(keys) for _ in range(rng.randint(0, 6))]))
            else:
                ops.append((src, 'clear'))
        return ops

    def map_program(self, ke, hm, ops):
        keys = universe()
        lines = [f'let hf = (x:int)->{{ (x % {ke}) % {hm} }};', f'let ef = (a:int, b:int)->{{ a % {ke} == b % {ke} }};',
                 'fn mk0()->Mapping<int,int>{ mapping(hf, ef) }', 'let m0 = mk0();', 'fn clr(m: Mapping<int,int>)->Mapping<int,int>{ m.clear() }',
                 'fn obs(m: Mapping<int,int>)->str { to_str(m.len()) + ":" + to_str([' + ', '.join(z(k) for k in keys) +
                 '].map((k:int)->{m.lookup(k)}).to_array()) }']
        coq = []
        for i, op in enumerate(ops):
            src = op[0]
            kind = op[1]
            if kind == 'set':
                lines.append(f'let m{i + 1} = m{src}.set({z(op[2])}, {z(op[3])});')
                coq.append(f'({src}%nat, MSet {z(op[2])} {z(op[3])})')
            elif kind == 'set_default':
                lines.append(f'let m{i + 1} = m{src}.set_default({z(op[2])}, {z(op[3])});')
                coq.append(f'({src}%nat, MSetDefault {z(op[2])} {z(op[3])})')
            elif kind == 'pop':
                lines.append(f'let m{i + 1} = m{src}.pop({z(op[2])});')
                coq.append(f'({src}%nat, MPop {z(op[2])})')
            elif kind == 'discard':
                lines.append(f'let m{i + 1} = m{src}.discard({z(op[2])});')
                coq.append(f'({src}%nat, MDiscard {z(op[2])})')
            elif kind == 'update':
                kvs = op[2]
                arr = '[' + ', '.join(f'({z(k)}, {z(v)})' for k, v in kvs) + ']'
                if not kvs:
                    lines.append(f'let m{i + 1} = m{src}.update(m0);')
                else:
                    lines.append(f'let m{i + 1} = m{src}.update({arr});')
                coq.append(f'({src}%nat, MUpdate {coq_list([f"({z(k)}, {z(v)})" for k, v in kvs])})')
            elif kind == 'update_map':
                lines.append(f'let m{i + 1} = m{src}.update(m{op[2]});')
                coq.append(f'({src}%nat, MUpdateMap {op[2]}%nat)')
            elif kind == 'upsert':
                ks = op[2]
                arr = '[' + ', '.join(z(k) for k in ks) + ']' if ks else 'range(0).to_array()'
                lines.append(f'let m{i + 1} = m{src}.update_from_keys({arr}, (k:int)->{{100*k}}, (k:int, v:int)->{{v+1}});')
                coq.append(f'({src}%nat, MUpsert {coq_list([z(k) for k in ks])})')
            elif kind == 'counter':
                ks = op[2]
                arr = '[' + ', '.join(z(k) for k in ks) + ']' if ks else 'range(0).to_array()'
                lines.append(f'let m{i + 1} = m{src}.update_counter({arr}.to_generator());')
                coq.append(f'({src}%nat, MCounter {coq_list([z(k) for k in ks])})')
            else:
                lines.append(f'let m{i + 1} = clr(m{src});')
                coq.append(f'({src}%nat, MClear)')
        n = len(ops)
        lines.append('fn f()->str { ' + ' + "#" + '.join(f'if_error(obs(m{i}), "E:")' for i in range(n + 1)) + ' }')
        term = f'joinl (mrun {z(ke)} {z(hm)} {coq_list([z(k) for k in keys])} {coq_list(coq)})'
        return '\n'.join(lines), term

    def gen_set_history(self, rng):
        n = rng.randint(1, 40)
        keys = universe()
        ops = []
        for i in range(n):
            src = rng.randint(0, i)
            k = rng.choice(keys)
            r = rng.random()
            if r < 0.3:
                ops.append((src, 'add', k))
            elif r < 0.4:
                ops.append((src, 'remove', k))
            elif r < 0.5:
                ops.append((src, 'discard', k))
            elif r < 0.6:
                ops.append((src, 'update', [rng.choice(keys) for _ in range(rng.randint(0, 5))]))
            elif r < 0.7:
                ops.append((src, 'union', rng.randint(0, i)))
            elif r < 0.8:
                ops.append((src, 'inter', rng.randint(0, i)))
            elif r < 0.9:
                ops.append((src, 'sub', rng.randint(0, i)))
            elif r < 0.97:
                ops.append((src, 'xor', rng.randint(0, i)))
            else:
                ops.append((src, 'clear'))
        pairs = [(rng.randint(0, n), rng.randint(0, n)) for _ in range(6)]
        return ops, pairs

    def set_program(self, ke, hm, ops, pairs):
        keys = universe()
        lines = [f'let hf = (x:int)->{{ (x % {ke}) % {hm} }};', f'let ef = (a:int, b:int)->{{ a % {ke} == b % {ke} }};',
                 'fn mk0()->Set<int>{ set(hf, ef) }', 'let s0 = mk0();',
                 'fn obs(s: Set<int>)->str { to_str(s.len()) + ":" + to_str([' + ', '.join(z(k) for k in keys) +
                 '].map((k:int)->{s.contains(k)}).to_array()) }',
                 'fn rel(a: Set<int>, b: Set<int>)->str { to_str([eq(a, b), le(a, b), lt(a, b), ge(a, b), gt(a, b), a.is_disjoint(b)]) }']
        coq = []
        opn = {'union': ('|', 'SUnion'), 'inter': ('&', 'SInter'), 'sub': ('-', 'SSub'), 'xor': ('^', 'SXor')}
        for i, op in enumerate(ops):
            src, kind = op[0], op[1]
            if kind == 'add':
                lines.append(f'let s{i + 1} = s{src}.add({z(op[2])});')
                coq.append(f'({src}%nat, SAdd {z(op[2])})')
            elif kind == 'remove':
                lines.append(f'let s{i + 1} = s{src}.remove({z(op[2])});')
                coq.append(f'({src}%nat, SRemove {z(op[2])})')
            elif kind == 'discard':
                lines.append(f'let s{i + 1} = s{src}.discard({z(op[2])});')
                coq.append(f'({src}%nat, SDiscard {z(op[2])})')
            elif kind == 'update':
                ks = op[2]
                arr = '[' + ', '.join(z(k) for k in ks) + ']' if ks else 'range(0).to_array()'
                lines.append(f'let s{i + 1} = s{src}.update({arr});')
                coq.append(f'({src}%nat, SUpdate {coq_list([z(k) for k in ks])})')
            elif kind in opn:
                lines.append(f'let s{i + 1} = s{src} {opn[kind][0]} s{op[2]};')
                coq.append(f'({src}%nat, {opn[kind][1]} {op[2]}%nat)')
            else:
                lines.append(f'let s{i + 1} = s{src}.clear();')
                coq.append(f'({src}%nat, SClear)')
        n = len(ops)
        parts = [f'if_error(obs(s{i}), "E:")' for i in range(n + 1)] + [f'if_error(rel(s{a}, s{b}), "E:")' for a, b in pairs]
        lines.append('fn f()->str { ' + ' + "#" + '.join(parts) + ' }')
        ul = coq_list([z(k) for k in keys])
        hl = coq_list(coq)
        pl = coq_list([f'({a}%nat, {b}%nat)' for a, b in pairs])
        term = f'joinl (srun {z(ke)} {z(hm)} {ul} {hl} ++ srels {z(ke)} {z(hm)} {ul} {hl} {pl})'
        return '\n'.join(lines), term

    def extra_checks(self, ctx):
        rng = ctx['rng']
        tier = ctx['tier']
        workdir = ctx['workdir']
        nh = 128 if tier == 'quick' else 1200
        jobs = []
        terms = []
        meta = []
        for i in range(nh):
            ke = rng.choice([1, 2, 3, 3, 5, 10 ** 30])
            hm = rng.choice([1, 1, 2, 3, 2 ** 64 - 59])
            if i % 2 == 0:
                ops = self.gen_map_history(rng)
                src, term = self.map_program(ke, hm, ops)
                kind = 'mapping'
            else:
                ops, pairs = self.gen_set_history(rng)
                src, term = self.set_program(ke, hm, ops, pairs)
                kind = 'set'
            jobs.append({'id': f'j{i}', 'src': src, 'calls': ['f']})
            terms.append(term)
            meta.append((kind, ke, hm, ops))
        res = {}
        for prof, binary in ctx['binaries']:
            res[prof] = core.run_harness(binary, jobs, os.path.join(workdir, 'h_' + prof))
        model = core.coq_eval(terms, self.imports, os.path.join(workdir, 'coq'), shard_size=4)
        violations = []
        n_eval = 0
        distinct = set()
        samples = []
        for job, term, m, (kind, ke, hm, ops) in zip(jobs, terms, model, meta):
            if m is None:
                raise core.CheckError('model evaluation failed for ' + job['id'])
            want = m.replace('E:key not found', 'E:').replace('E:no such version', 'E:')
            # an operation on an error version is an error (the model propagates Err the same way)
            import re
            want = re.sub(r'E:[^#]*', 'E:', want)
            for prof, _ in ctx['binaries']:
                r = res[prof].get(job['id'])
                n_eval += 1
                if r is None or r.get('compile') != 'ok':
                    raise core.CheckError(f'C17 program did not compile: {r and r.get("compile")}\n{job["src"]}')
                out = r['calls'][0] if r.get('inst') == 'ok' else 'I:' + str(r.get('inst'))
                got = out[2:] if out.startswith('s:') else out
                if got != want:
                    # locate the first differing version for the report
                    gp, wp = got.split('#'), want.split('#')
                    idx = next((k for k, (a, b) in enumerate(zip(gp, wp)) if a != b), min(len(gp), len(wp)))
                    violations.append({'what': f'{kind} history: version {idx} observed differently from the finite-map model '
                                               f'(equality mod {ke}, hash (k mod {ke}) mod {hm})',
                                       'case': {'src': job['src'], 'ke': ke, 'hm': hm, 'ops': ops[:idx]},
                                       'impl': gp[idx] if idx < len(gp) else out[:200], 'model': wp[idx] if idx < len(wp) else None,
                                       'profile': prof})
                else:
                    if hm < ke or ke > 1:
                        distinct.add(job['src'])
                    if len(samples) < 4:
                        samples.append({'kind': kind, 'ke': ke, 'hm': hm, 'history': [list(o) for o in ops[:6]], 'observed': got[:160]})
        ctx['coverage'] = {'evaluations': n_eval, 'distinct_nontrivial': len(distinct), 'samples': samples, 'histories': nh}
        return violations


PROP = C17()
