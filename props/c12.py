"""C12 - compilation is total, effect-free and deterministic.
(a) number literals: every spelling of a bounded literal grammar plus boundary spellings (2^127, 2^128, 1e308/1e309,
    underscores, empty hex/binary digit lists) is compiled and compared with convert of coq/Lang/Literals.v;
(b) robustness stream: token soups, token mutations and splices of the shipped scripts and book examples, brackets nested
    up to 64 (and 200), non-ASCII text inside long erroneous declarations, all programs of the C01/C02 generators: the
    compiler must answer ok or a rendered compilation error - no panic, no hang - and must not touch writer / clock / rng;
(c) determinism: every text is compiled twice in one process (same outcome, same message), and the whole stream is run
    again in another process in the opposite order under other limits: outcome, message and the behaviour of the
    compiled program (values of its zero-argument functions, output) must be identical."""
import glob
import os
import re

from lib import core
from lib.runner import PropertyCheck
from props.c01 import tokens_mutate, zero_arg_functions
from props.c02 import gen_program

IMPORTS = ('From Coq Require Import List ZArith String.\nFrom Xr Require Import Base.Show Lang.Literals.\nImport ListNotations.\nOpen Scope Z_scope.\n'
           'Definition show_o (o : outcome) : string := match o with OInt z => ("int:" ++ show_Z z)%string | OFloat => "float"%string | OInvalid => "invalid"%string end.\n')


def spell(rng, kind, digits):
    """(text, coq spelling): digits is a list of ints; underscores are sprinkled into the text"""
    def us(ds, alphabet):
        out = ''
        for i, d in enumerate(ds):
            out += alphabet[d]
            if i + 1 < len(ds) and rng.random() < 0.15:
                out += '_' * rng.choice([1, 1, 2])
        return out
    lst = lambda ds: '[' + '; '.join(str(d) for d in ds) + ']'
    if kind == 'dec':
        return us(digits, '0123456789'), f'(SDec {lst(digits)} None None)'
    if kind == 'hex':
        alpha = '0123456789abcdef' if rng.random() < 0.5 else '0123456789ABCDEF'
        body = us(digits, alpha)
        if not digits or rng.random() < 0.1:
            body += '_'
        return '0x' + body, f'(SHex {lst(digits)})'
    if kind == 'bin':
        body = us(digits, '01')
        if not digits:
            body = '_'
        return '0b' + body, f'(SBin {lst(digits)})'
    raise ValueError(kind)


def float_spell(rng, ip, frac, exp):
    t = ''.join(str(d) for d in ip)
    c = f'(SDec [{"; ".join(map(str, ip))}] '
    if frac is not None:
        t += '.' + ''.join(str(d) for d in frac)
        c += f'(Some [{"; ".join(map(str, frac))}]) '
    else:
        c += 'None '
    if exp is not None:
        neg, ds = exp
        t += rng.choice('eE') + ('-' if neg else '') + ''.join(str(d) for d in ds)
        c += f'(Some ({"true" if neg else "false"}, [{"; ".join(map(str, ds))}]))'
    else:
        c += 'None'
    return t, c + ')'


def digits_of(n, base):
    ds = []
    while n:
        ds.append(n % base)
        n //= base
    return list(reversed(ds)) or [0]


def soup(rng, n):
    alphabet = ['fn', 'let', 'struct', 'union', 'type', 'forward', 'x', 'y', 'f', 'int', 'str', 'Sequence', 'Optional', '(', ')', '[', ']', '{', '}', '<', '>', ',', ';', ':', '::', '->', '=',
                '?=', '+', '-', '*', '/', '%', '**', '==', '!=', '&&', '||', '!', '.', '1', '0x1f', '1.5', '1e5', '"s"', "'t'", 'r"raw"', 'f"a{x}"', 'true', '$', '?:', '!:', '//c\n', '/*c*/', '#"q"#',
                'é', '👋', '\\', '"', "'", '\n', '\t', ' ']
    return ' '.join(rng.choice(alphabet) for _ in range(n))


class C12(PropertyCheck):
    id = 'C12'
    imports = IMPORTS
    technique = ('Coq model of the number-literal conversion with classification theorems (exact integer, never silently a float, float only if finite) + interner theorem of C03; '
                 'literal correspondence; robustness / purity / repetition stream under catch_unwind with recording doubles')
    trusted = ['the harness compiles every text in a fresh std_compilation_scope under catch_unwind and counts every use of the injected writer, clock and random source',
               'a hang is observed as a job lost to the per-job watchdog']
    assumptions = ['the pest-generated parser and feed_file are not modelled: totality, purity and determinism of those stages are sampled observations, not theorems']
    rule = ('(a) decimal / hex / binary integer spellings at every length up to 45 / 34 / 130 digits around the i128 and u128 boundaries, float spellings with exponents around '
            '308/309 and 17-digit mantissas; (b) 2-kB token soups, token mutations and splices of shipped scripts and book examples, nesting 64 and 200, non-ASCII inside long '
            'erroneous declarations, generated programs; (c) each text twice in-process and in two processes with opposite order and different limits; distinct = text; '
            'non-trivial = text is not accepted unchanged from the shipped corpus')

    def generate(self, rng, tier):
        return []

    def extra_checks(self, ctx):
        rng, tier, workdir = ctx['rng'], ctx['tier'], ctx['workdir']
        violations, samples = [], []
        n_eval, distinct = 0, set()
        # ------------------------------------------------------------------ (a) literals
        lits = []
        M127, M128 = 2 ** 127, 2 ** 128
        for v in [0, 1, 9, 10, 255, 2 ** 63 - 1, 2 ** 63, 2 ** 64, M127 - 2, M127 - 1, M127, M127 + 1, M128 - 1, M128, M128 + 1, 10 ** 38, 10 ** 39, 10 ** 45]:
            for base, kind in ((10, 'dec'), (16, 'hex'), (2, 'bin')):
                for _ in range(2):
                    lits.append(spell(rng, kind, digits_of(v, base)))
        for _ in range(60 if tier == 'quick' else 600):
            kind = rng.choice(['dec', 'hex', 'bin'])
            base = {'dec': 10, 'hex': 16, 'bin': 2}[kind]
            n = rng.choice([1, 2, 5, 20, 31, 32, 33, 38, 39, 40, 127, 128, 129]) if kind != 'dec' else rng.choice([1, 2, 10, 19, 20, 38, 39, 40, 45])
            if kind == 'hex':
                n = min(n, 40)
            ds = [rng.randrange(base) for _ in range(n)]
            if rng.random() < 0.5:
                ds[0] = rng.choice([base - 1, base // 2, base // 2 - 1 if base > 2 else 1, 1])
            lits.append(spell(rng, kind, ds))
        lits.append(spell(rng, 'hex', []))
        lits.append(spell(rng, 'bin', []))
        for _ in range(60 if tier == 'quick' else 600):
            ip = [rng.randrange(10) for _ in range(rng.choice([1, 1, 2, 17, 18, 30]))]
            frac = [rng.randrange(10) for _ in range(rng.choice([1, 2, 17]))] if rng.random() < 0.6 else None
            exp = None
            if frac is None or rng.random() < 0.6:
                e = rng.choice([0, 1, 5, 22, 290, 291, 292, 300, 307, 308, 309, 310, 400, 401, 999, 5000])
                exp = (rng.random() < 0.3, digits_of(e, 10))
            lits.append(float_spell(rng, ip, frac, exp))
        # long mantissas against large negative exponents (the value can still be beyond the double range), and the reverse
        for nd, e, neg in [(500, 401, True), (500, 150, True), (700, 400, True), (330, 10, True), (300, 0, False), (310, 0, False), (309, 1, True), (1, 400, False), (2, 350, True), (400, 95, True)]:
            lits.append(float_spell(rng, [rng.randint(1, 9)] + [rng.randrange(10) for _ in range(nd - 1)], [0] if rng.random() < 0.5 else None, (neg, digits_of(e, 10))))
        for mant, e in [('17976931348623157', 292), ('17976931348623158', 292), ('179769313486231570', 291), ('179769313486231580', 291), ('179769313486231581', 291), ('1', 308), ('1', 309), ('2', 308)]:
            lits.append(float_spell(rng, [int(c) for c in mant], None, (False, digits_of(e, 10))))
        ljobs = [{'id': f'l{i}', 'src': f'let x = {t};\nfn c0() -> str {{ to_str(x) }}', 'calls': ['c0'], 'twice': True} for i, (t, _) in enumerate(lits)]
        lres = core.run_harness(ctx['binary'], ljobs, os.path.join(workdir, 'hl'), timeout=300)
        lmodel = core.coq_eval([f'show_o (convert {c})' for _, c in lits], self.imports, os.path.join(workdir, 'coq'), shard_size=100, timeout=600)
        kinds = {'int': 0, 'float': 0, 'invalid': 0}
        for (t, c), job, m in zip(lits, ljobs, lmodel):
            if m is None:
                raise core.CheckError('model evaluation failed for literal ' + t)
            r = lres.get(job['id'])
            n_eval += 1
            kinds[m.split(':')[0]] += 1
            comp = r.get('compile') or ''
            if comp == 'ok':
                out = r['calls'][0]
                got = ('int:' + out[2:]) if re.fullmatch(r's:-?\d+', out) else ('float' if out.startswith('s:') else out)
            elif '[InvalidNumberLiteral]' in comp:
                got = 'invalid'
            else:
                got = comp[:200]
            if got != m:
                violations.append({'what': 'number literal: the compiler\'s outcome differs from the total conversion (crash, wrong value, or an integer spelling silently turned into a float)',
                                   'case': {'src': job['src'], 'literal': t}, 'impl': got, 'model': m})
            else:
                distinct.add(t)
        # ------------------------------------------------------------------ (b) + (c) stream
        texts = []
        corpus = sorted(glob.glob('/repo/test_scripts/*.xr'))
        srcs = [open(f, encoding='utf-8').read() for f in (corpus if tier == 'thorough' else rng.sample(corpus, 80))]
        book = []
        for md in sorted(glob.glob('/repo/book/src/**/*.md', recursive=True)):
            book += re.findall(r'```xray[^\n]*\n(.*?)```', open(md, encoding='utf-8').read(), re.S)
        for s in srcs:
            texts.append(('shipped', s))
            texts.append(('mutated', tokens_mutate(rng, s)))
            if rng.random() < 0.5:
                o = rng.choice(srcs)
                cut1, cut2 = rng.randrange(len(s) + 1), rng.randrange(len(o) + 1)
                texts.append(('splice', s[:cut1] + o[cut2:]))
            if rng.random() < 0.3:
                k = rng.randrange(len(s) + 1)
                texts.append(('non-ascii-insert', s[:k] + rng.choice(['é', '👋', 'ä̈', '​', 'ß']) + s[k:]))
        for b in (book if tier == 'thorough' else rng.sample(book, min(50, len(book)))):
            texts.append(('book', b))
            texts.append(('mutated', tokens_mutate(rng, b)))
        for _ in range(60 if tier == 'quick' else 600):
            texts.append(('soup', soup(rng, rng.randint(5, 400))))
        for d in [8, 24, 64, 200]:
            texts += [('nesting', 'let x = ' + '(' * d + '1' + ')' * d + ';'), ('nesting', 'let x = ' + '[' * d + '1' + ']' * d + ';'), ('nesting', 'let x = ' + '(' * d + '1' + ', 2)' * d + ';'),
                      ('nesting', 'fn f(x: ' + 'Sequence<' * d + 'int' + '>' * d + ')->int{1}'), ('nesting', 'fn f(x: ' + '(' * d + 'int' + ', str)' * d + ')->int{1}'),
                      ('nesting', 'let x = ' + '()->{' * d + '1' + '}' * d + ';'), ('nesting', 'fn f(a: int ?= ' + '((b: int ?= ' * min(d, 64) + '1' + ')->{b})()' * min(d, 64) + ')->int{a}'),
                      ('nesting', 'let x = ' + '(' * d + ';'), ('nesting', 'let x = ' + 'f(' * d + '1' + ')' * d + ';'), ('nesting', 'let x = ' + '-' * d + '1;'), ('nesting', 'let x = 1' + '+1' * d * 10 + ';')]
        # long erroneous declarations with non-ASCII text at every byte offset around 80
        for pad in list(range(60, 100, 1 if tier == 'thorough' else 3)) + list(range(140, 180, 1 if tier == 'thorough' else 3)) + [250, 400]:
            filler = 'a' * pad
            for ch in ['é', '👋', 'ä']:
                texts.append(('non-ascii-error', f'let v: int = "{filler}{ch * 12}";'))
                texts.append(('non-ascii-error', f'let w = 1;\nfn w(x: int ?= 1, y: str) -> str {{ "{filler}{ch * 12}" }}'))
                texts.append(('non-ascii-error', f'fn g() -> int {{ "{filler}{ch * 12}" }}'))
        # a rejected text with a bad escape after some text (state must not leak into the next compilation), no-overload with several dynamic failures
        canary = 'fn c0() -> str { ["a", "b"].join() + "lit" + f"{1}" + \'q\' }\nfn c1() -> str { "é\\n".to_str() + ["x", "y"].join(", ") }'
        texts.append(('canary', canary))
        for _ in range(6):
            texts.append(('bad-escape', 'let s = "stale text \\q";'))
            texts.append(('canary', canary))
            texts.append(('bad-escape', 'let s = "x\\u{110000}";'))
            texts.append(('canary', canary))
            texts.append(('bad-escape', 'let s = f"stale {1} \\q";'))
            texts.append(('canary', canary))
            texts.append(('no-overload', 'fn a(x: int)->int{x}\nlet b = a == a;'))
            texts.append(('no-overload', 'struct Z(n: int)\nlet b = [Z(1)].to_str();'))
            texts.append(('no-overload', 'struct Z(n: int)\nlet h = hash(Z(1)); let c = cmp(Z(1), 2); let j = Z(1) < "a";'))
        # error messages that render types with several generic parameters, special identifiers, turbofish placeholders, several pending forward declarations
        texts += [('typed-error', 'struct P6<A,B,C,D,E,F>(a: A, b: B, c: C, d: D, e: E, f: F)\nlet p = P6(1, "s", 1.5, true, [1], (1, 2));\nlet q: int = p;'),
                  ('typed-error', 'struct P2<A,B>(a: A, b: B)\nfn f(x: P2<int, str>) -> int { 1 }\nlet r = f(P2("s", 1));'),
                  ('typed-error', 'union E3<A,B,C>(a: A, b: B, c: C)\nlet e: E3<int, str, bool> = E3::a("x");'),
                  ('typed-error', 'struct P2<A,B>(a: A, b: B)\nlet l = [P2(1, "a"), P2("a", 1)];'),
                  ('typed-error', 'struct V6(a: int, b: int, c: int, d: int, e: int, f: int)\nlet x = V6(1, 2, 3, 4, 5, 6).display();'),
                  ('typed-error', 'struct V6(a: int, b: int, c: int, d: int, e: int, f: int)\nlet x = [V6(1, 2, 3, 4, 5, 6)] == [V6(1, 2, 3, 4, 5, 6)];'),
                  ('typed-error', 'struct P6<A,B,C,D,E,F>(a: A, b: B, c: C, d: D, e: E, f: F)\nlet x = hash(P6(1, "s", 1.5, true, [1], (1, 2)));'),
                  ('identifier', 'let item18446744073709551616 = 1;\nfn c0() -> int { item18446744073709551616 }'),
                  ('identifier', 'let item99999999999999999999999999999999999 = 1;\nfn c0() -> int { item99999999999999999999999999999999999 + 1 }'),
                  ('identifier', 'let t = (1, 2);\nfn c0() -> int { t::item18446744073709551616 }'), ('identifier', 'let t = (1, 2);\nfn c0() -> int { t::item1 }'),
                  ('turbofish', 'fn foo(x: int) -> int { x }\nlet z = foo{$,$}(1);'), ('turbofish', 'fn foo(x: int) -> int { x }\nlet z = foo{$}();'), ('turbofish', 'fn foo(x: int) -> int { x }\nlet z = foo{$};'),
                  ('turbofish', 'fn foo(x: int, y: int ?= 2) -> int { x }\nlet z = foo{$,$,$}(1, 2);'), ('turbofish', 'fn foo<T>(x: T) -> T { x }\nlet z = foo{$}(1);\nfn c0() -> int { z }'),
                  ('forward', 'fn outer() -> int {\nforward fn a(x: int) -> int;\nforward fn b(x: int) -> int;\nfn inner() -> int { a(1) + b(2) }\ninner()\n}'),
                  ('forward', 'fn outer() -> int {\nforward fn b(x: int) -> int;\nforward fn a(x: int) -> int;\nforward fn c(x: str) -> int;\nfn inner() -> int { c("x") + a(1) + b(2) }\nfn a(x: int) -> int { x }\ninner()\n}')] * 3
        # iteration order of hashed containers, and messages that quote them, must be the same in every process
        for n_ in (3, 5, 9, 17):
            ks = [((7 * i * i + 3 * i) % 1000) for i in range(n_)]
            mp = 'mapping<int>()' + ''.join(f'.set({k_}, {i})' for i, k_ in enumerate(ks))
            st = 'set<int>()' + ''.join(f'.add({k_})' for k_ in ks)
            texts += [('hashed-iteration', f'fn c0() -> str {{ to_str({mp}.keys().to_array()) }}\nfn c1() -> str {{ to_str({st}.to_array()) }}\nfn c2() -> str {{ to_str({mp}.to_generator().to_array()) }}'),
                      ('hashed-iteration', f'fn c0() -> bool {{ assert({mp} == {mp}.set(1000001, 1)) }}\nfn c1() -> str {{ to_str({mp}) }}\nfn c2() -> str {{ to_str({st}) }}'),
                      ('hashed-iteration', f'fn c0() -> str {{ to_str([{", ".join(str(k_ % 7) for k_ in ks)}].to_generator().with_count().to_array()) }}\nfn c1() -> str {{ to_str([{", ".join(str(k_ % 7) for k_ in ks)}].to_generator().distinct().to_array()) }}')]
        for _ in range(20 if tier == 'quick' else 200):
            decls, obs = gen_program(rng, nobs=3, err_rate=0.05, depth=3)
            texts.append(('generated', '\n'.join(d.xr() for d in decls)))
        jobs1, jobs2 = [], []
        for k, (kind, t) in enumerate(texts):
            fns = zero_arg_functions(t)[:5]
            jobs1.append({'id': f't{k}', 'src': t, 'calls': fns, 'twice': True, 'limits': {'time_ms': 2000, 'ud_calls': 100000, 'size': 1 << 26}})
            jobs2.append({'id': f't{k}', 'src': t, 'calls': fns, 'limits': {'time_ms': 2000, 'ud_calls': 100000, 'size': 1 << 26, 'depth': 500, 'search': 1 << 20}})
        order2 = list(reversed(jobs2))
        r1 = core.run_harness(ctx['binary'], jobs1, os.path.join(workdir, 'h1'), timeout=1800, single_timeout=30)
        r2 = core.run_harness(ctx['binary'], order2, os.path.join(workdir, 'h2'), timeout=1800, single_timeout=30, shards=7)
        # one process, one thread, strictly sequential history: every rejected text is followed by canaries whose behaviour must be that of a fresh process
        hist_idx = [k for k, (kind, _) in enumerate(texts) if kind in ('canary', 'bad-escape', 'no-overload')] + rng.sample(range(len(texts)), min(60, len(texts)))
        seq_jobs = []
        for n_, k in enumerate(hist_idx):
            seq_jobs.append(dict(jobs2[len(jobs2) - 1 - k] if False else jobs2[k], id=f'q{n_}'))
        rs = core.run_harness(ctx['binary'], seq_jobs, os.path.join(workdir, 'h3'), timeout=900, single_timeout=30, shards=1)
        viol = lambda r_: str(r_.get('inst', '')).startswith('viol:') or any(str(c_).startswith(('X:', 'H:')) for c_ in (r_.get('calls') or []))
        for n_, k in enumerate(hist_idx):
            a, q = r1.get(f't{k}'), rs.get(f'q{n_}')
            n_eval += 1
            if a is None or q is None:
                continue
            diff = [x for x in ['compile', 'inst', 'calls', 'stdout'] if a.get(x) != q.get(x)]
            if viol(a) or viol(q):
                diff = [x for x in diff if x == 'compile']
            if diff:
                violations.append({'what': 'the outcome of compiling a text depends on what was compiled (and rejected) earlier in the same process',
                                   'case': {'src': texts[k][1], 'origin': texts[k][0], 'history': [texts[j][0] for j in hist_idx[max(0, n_ - 3):n_]]},
                                   'impl': {x: [str(a.get(x))[:300], str(q.get(x))[:300]] for x in diff}})
        outcome_kinds = {}
        for k, (kind, t) in enumerate(texts):
            a, b = r1.get(f't{k}'), r2.get(f't{k}')
            n_eval += 2
            case = {'src': t, 'origin': kind}
            if a is None or b is None:
                violations.append({'what': 'the compiler (or the compiled program beyond every limit) did not come back: hang or abort', 'case': case, 'impl': 'lost job'})
                continue
            ca = a.get('compile') or ''
            if ca.startswith(('panic', 'H:', 'A:')):
                violations.append({'what': 'the compiler crashed or hung instead of accepting the text or rejecting it with a rendered compilation error', 'case': case, 'impl': ca[:400]})
                continue
            ok = 'accepted' if ca == 'ok' else 'rejected'
            outcome_kinds[kind + ':' + ok] = outcome_kinds.get(kind + ':' + ok, 0) + 1
            touched = a.get('touched_compile') or a.get('touched') or {}
            if any(touched.get(x, 0) for x in ('writer', 'clock', 'rng')):
                violations.append({'what': 'compilation touched the injected writer / clock / random source', 'case': case, 'impl': touched})
                continue
            if a.get('compile_twice_same') is False:
                violations.append({'what': 'two compilations of the same text in one process differ (outcome or error text)', 'case': case, 'impl': ca[:300]})
                continue
            keys = ['compile', 'inst', 'calls', 'stdout']
            diff = [x for x in keys if a.get(x) != b.get(x)]
            # the two processes run under different limits on purpose: where either run ended in a violation (limits are
            # the host's input, not the source's) the behaviour is not compared; compilation always is
            viol = lambda r_: str(r_.get('inst', '')).startswith('viol:') or any(str(c_).startswith(('X:', 'H:')) for c_ in (r_.get('calls') or []))
            if viol(a) or viol(b):
                diff = [x for x in diff if x == 'compile']
            if diff:
                violations.append({'what': 'the outcome of compiling a text (acceptance, error text, behaviour of the compiled program) depends on what was compiled before in the process or on the limits',
                                   'case': case, 'impl': {x: [str(a.get(x))[:300], str(b.get(x))[:300]] for x in diff}})
                continue
            if kind != 'shipped':
                distinct.add(t)
            if len(samples) < 4 and kind in ('soup', 'splice', 'non-ascii-error', 'nesting') and kind not in [s['origin'] for s in samples]:
                samples.append({'origin': kind, 'text': t[:160], 'outcome': ca[:160]})
        ctx['coverage'] = {'evaluations': n_eval, 'distinct_nontrivial': len(distinct), 'samples': samples, 'literal_spellings': len(lits), 'literal_model_outcomes': kinds,
                           'stream_texts': len(texts), 'stream_outcomes': outcome_kinds}
        return violations


PROP = C12()
