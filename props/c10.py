"""C10 - limits bound all work: no unbounded native loop.
(a) exactness grid: generator len / filter+len / skip_until+get over range(N) and count() with NATIVE predicates, for
    N, match position and search limit L around each other - compared with the budgeted loops of coq/Rt/Budget.v (whose
    boundedness - the outcome is a function of the first L+1 elements - is proved there);
(b) must-not-return-a-value sweep: pipelines source x adaptor x consumer whose result needs far more elements than the
    search limit (infinite sources: count, successors, repeat; huge finite ones) with native and with user predicates,
    under finite search / call / size / time limits and a wall-clock watchdog: each must come back in time with a
    violation or an error value, never with a value and never hang; their small counterparts must succeed;
(c) numeric builtins with adversarial arguments under the same limits must come back in time;
(d) once the time limit has elapsed no further user call begins: a function that takes >= 5 ms natively is called in a
    chain under a 100 ms time limit and a (large) call limit: the number of calls begun is bounded by limit / cost."""
import itertools
import os
import re
import time

from lib import core
from lib.runner import PropertyCheck

IMPORTS = ('From Coq Require Import List ZArith Arith String.\nFrom Xr Require Import Base.Show Rt.Budget.\nImport ListNotations.\n'
           'Definition show_on (o : out nat) : string := match o with Done n => ("v:" ++ show_nat n)%string | Viol => "X"%string end.\n'
           'Definition show_oz (o : out (option Z)) : string := match o with Done (Some z) => ("v:" ++ show_Z z)%string | Done None => "v:none"%string | Viol => "X"%string end.\n')

LIMITS = {'search': 1000, 'ud_calls': 5000, 'size': 1 << 24, 'time_ms': 3000}
N = 200000
SOURCES = {'count': 'count().to_generator()', 'successors': 'successors(0, (x: int)->{x+1})', 'range': f'range({N}).to_generator()',
           'repeat': '[1,2,3].to_generator().repeat()', 'constant-run': f'range({N}).to_generator().map(partial(mul{{int,int}}, 0))',
           'repeat-of-empty-then-count': 'range(0).to_generator().repeat().add(count().to_generator())', 'chain': f'range({N}).to_generator().add(count().to_generator())'}
SMALL = {'count': 'count().to_generator().take(50)', 'successors': 'successors(0, (x: int)->{x+1}).take(50)', 'range': 'range(50).to_generator()',
         'repeat': '[1,2,3].to_generator().repeat(10)', 'constant-run': 'range(50).to_generator().map(partial(mul{int,int}, 0))',
         'repeat-of-empty-then-count': 'range(0).to_generator().repeat().add(range(50).to_generator())', 'chain': 'range(20).to_generator().add(range(30).to_generator())'}
ADAPTORS = {'id': '', 'map-user': '.map((x: int)->{x+1})', 'map-native': '.map(partial(add{int,int}, 1))', 'filter-user-never': '.filter((x: int)->{false})',
            'filter-native-never': '.filter(partial(gt{int,int}, -5))', 'filter-native-always': '.filter(partial(lt{int,int}, -5))', 'skip': '.skip(150000)',
            'skip_until-native-never': '.skip_until(partial(gt{int,int}, -5))', 'take_while-native-always': '.take_while(partial(lt{int,int}, -5))',
            'group-user': '.group((a: int, b: int)->{a == b})', 'group-native': '.group(eq{int,int})', 'distinct': '.distinct()', 'windows': '.windows(3)', 'chunks': '.chunks(3)',
            'enumerate': '.enumerate()', 'aggregate': '.aggregate(0, add{int,int})', 'with_count': '.with_count()', 'flatten': '.map((x: int)->{[x, x].to_generator()}).flatten()'}
CONSUMERS = {'len': '.len()', 'last': '.last()', 'to_array': '.to_array().len()', 'get': '.get(150000)', 'reduce': None, 'any-never': None, 'nth': None}
SMALL_SKIP = {'skip': '.skip(5)'}


def wrap(e):
    return f'fn c0() -> str {{ to_str({e}) }}'


class C10(PropertyCheck):
    id = 'C10'
    imports = IMPORTS
    technique = ('Coq model of the search budget with proofs that budgeted loops (consumer, filter, skip_until) are functions of the first L+1 elements of an endless stream; '
                 'exactness grid against the model; generated-pipeline sweep under limits and a watchdog; call-count bound for the time limit')
    trusted = ['the watchdog of the harness runner (a lost job is a hang)', 'for (d): a native operation costs at least its calibrated time under load (load only makes calls slower, '
               'which lowers the number of calls that begin before the deadline)']
    assumptions = ['the adaptor table of props/c10.py covers the generator adaptors of the documented standard library; sequences of known length are not in the must-violate set',
                   'the time limit is wall clock (Instant::now), not the injected clock: (d) is a statistical bound with a factor-2 margin']
    rule = ('(a) N, k, L in a grid around each other (L-1, L, L+1); (b) 7 sources x 18 adaptors x 4 consumers with need >= 150 x limit, plus small counterparts; '
            '(c) 14 numeric calls; (d) 3 repetitions; distinct = program text; non-trivial = the pipeline needs more elements than the search limit')

    def generate(self, rng, tier):
        return []

    def extra_checks(self, ctx):
        rng, tier, workdir = ctx['rng'], ctx['tier'], ctx['workdir']
        violations, samples = [], []
        n_eval, distinct = 0, set()
        # ------------------------------------------------------------------ (a) exactness grid
        jobs, terms = [], []
        grid = []
        for L in ([5, 40] if tier == 'quick' else [1, 2, 5, 17, 40, 100]):
            for Nn in sorted({0, 1, L - 1, L, L + 1, L + 2, 3 * L}):
                if Nn < 0:
                    continue
                grid.append(('len', L, Nn, 0))
                for k in sorted({0, 1, L // 2, L - 1, L, L + 1, Nn - 1, Nn, Nn + 1}):
                    if k < 0:
                        continue
                    grid.append(('filter', L, Nn, k))
                    grid.append(('skip_until', L, Nn, k))
                    grid.append(('skip_until_count', L, 0, k))
        for i, (kind, L, Nn, k) in enumerate(grid):
            lim = {'search': L, 'size': 1 << 24}
            if kind == 'len':
                e, t = f'range({Nn}).to_generator().len()', f'show_on (gen_len {L} (s_range {Nn}))'
            elif kind == 'filter':      # elements < k pass
                e, t = f'range({Nn}).to_generator().filter(partial(gt{{int,int}}, {k})).len()', f'show_on (filter_len {L} {L} (s_range {Nn}) 0 (fun x => Z.ltb x {k}) 0)'
            elif kind == 'skip_until':  # first element > k - 1, i.e. >= k
                e = f'range({Nn}).to_generator().skip_until(partial(lt{{int,int}}, {k - 1})).take(1).to_array().to_str()'
                t = f'show_oz (skip_until_first {L} (s_range {Nn}) 0 (fun x => Z.ltb ({k} - 1) x))'
            else:
                e = f'count().to_generator().skip_until(partial(lt{{int,int}}, {k - 1})).take(1).to_array().to_str()'
                t = f'show_oz (skip_until_first {L} s_count 0 (fun x => Z.ltb ({k} - 1) x))'
            jobs.append({'id': f'g{i}', 'src': wrap(e), 'calls': ['c0'], 'limits': lim})
            terms.append(t)
        res = core.run_harness(ctx['binary'], jobs, os.path.join(workdir, 'ha'), timeout=300)
        model = core.coq_eval(terms, self.imports, os.path.join(workdir, 'coq'), shard_size=200, timeout=600)
        for job, m, g in zip(jobs, model, grid):
            r = res.get(job['id'])
            n_eval += 1
            if m is None:
                raise core.CheckError('model evaluation failed: ' + terms[jobs.index(job)])
            if r is None or r.get('compile') != 'ok':
                raise core.CheckError(f'grid program failed: {r and r.get("compile")}\n{job["src"]}')
            out = r['calls'][0]
            if out.startswith('X:'):
                got = 'X'
            elif g[0] in ('skip_until', 'skip_until_count'):
                got = 'v:none' if out == 's:[]' else 'v:' + out[3:-1]
            else:
                got = 'v:' + out[2:]
            if got != m:
                violations.append({'what': f'search budget not exact for {g[0]}: limit {g[1]}, {g[2]} elements, parameter {g[3]}', 'case': {'src': job['src'], 'limits': job['limits']},
                                   'impl': out, 'model': m})
            else:
                distinct.add(job['src'])
        # ------------------------------------------------------------------ (b) pipelines
        pj, pmeta = [], []
        for s, a, c in itertools.product(SOURCES, ADAPTORS, ['len', 'last', 'to_array', 'get']):
            if tier == 'quick' and rng.random() < 0.5:
                continue
            big = SOURCES[s] + ADAPTORS[a] + CONSUMERS[c]
            small = SMALL[s] + ADAPTORS[a].replace('.skip(150000)', '.skip(5)') + CONSUMERS[c].replace('150000', '1')
            truncating = a in ('filter-user-never', 'filter-native-never', 'skip_until-native-never')      # nothing comes out: the small one may be an index error
            pj.append({'id': f'b{len(pj)}', 'src': wrap(big), 'calls': ['c0'], 'limits': LIMITS})
            pmeta.append(('big', s, a, c))
            pj.append({'id': f'b{len(pj)}', 'src': wrap(small), 'calls': ['c0'], 'limits': LIMITS})
            pmeta.append(('small-empty' if truncating or (a == 'skip' and s == 'repeat-of-empty-then-count' and False) else 'small', s, a, c))
        extra = ['count().to_generator().reduce(0, add{int,int})', 'count().to_generator().any(partial(gt{int,int}, -5))', 'count().to_generator().all(partial(lt{int,int}, -5))',
                 'count().to_generator().nth(5, partial(gt{int,int}, -5))', 'count().to_generator().contains(-1)', 'count().to_generator().count(partial(gt{int,int}, -5))',
                 'count().to_generator().max()', 'count().to_generator().sum()', 'count().filter(partial(gt{int,int}, -5)).get(0)', 'count().skip_until(partial(gt{int,int}, -5)).get(0)',
                 'count().take_while(partial(lt{int,int}, -5)).len()', 'count().nth(0, partial(gt{int,int}, -5))', f'range({N}).nth(-1, partial(gt{{int,int}}, -5))',
                 f'range({N}).to_generator().map(partial(mul{{int,int}}, 0)).group(eq{{int,int}}).len()', f'range({N}).to_generator().distinct().len()',
                 'count().to_generator().flatten_probe()' if False else 'count().to_generator().map((x: int)->{count().to_generator()}).flatten().get(150000)',
                 'count().to_generator().skip(3000000).get(0)', 'count().to_generator().skip(150000).first((x: int)->{true})', 'successors(0, (x: int)->{x+1}).skip(150000).take(1).to_array().len()',
                 'range(0).to_generator().repeat().len()', 'range(0).to_generator().repeat().map((x: int)->{x}).filter((x: int)->{true}).last()']
        for e in extra:
            pj.append({'id': f'b{len(pj)}', 'src': wrap(e), 'calls': ['c0'], 'limits': LIMITS})
            pmeta.append(('big' if 'repeat()' not in e else 'any', 'extra', e, ''))
        numeric = ['multinom([40000, 40000])', 'multinom([1000000000000, 1000000000000])', 'binom(1000000, 500000)', 'binom(10 ** 12, 5 * 10 ** 11)', 'digits(10 ** 3000, 2).len()',
                   'digits(5, 1)', 'digits(0 - 255, 16).len()', 'digits(0 - 1).len()', 'digits(0 - 10 ** 50, 7).len()', '(10 ** 100000).to_str().len()', '2 ** (2 ** 40)', 'factorial(100000)', 'range(10 ** 18).len()', 'range(10 ** 18).to_array().len()',
                   '"ab".repeat(10 ** 12).len()' if False else '[1].repeat(10 ** 12).len()', 'range(10 ** 12).sum()', 'range(10 ** 12).map(partial(add{int,int}, 1)).sum()', 'count().to_str()']
        # an endless tail-recursive loop: only the recursion limit or the time limit can end it
        for lim_ in ({'time_ms': 300, 'ud_calls': 100000}, {'time_ms': 300}, {'recursion': 5000, 'ud_calls': 100000}, {'time_ms': 300, 'recursion': 10 ** 9, 'size': 1 << 24}):
            pj.append({'id': f'b{len(pj)}', 'src': 'fn spin(n: int, a: int) -> int { if(n == 1, a, spin(n, a + 1)) }\nfn c0() -> str { to_str(spin(0, 0)) }', 'calls': ['c0'], 'limits': lim_})
            pmeta.append(('big', 'tail-loop', 'spin', ''))
        # requests whose answer is tiny must come back as a value: a loop that only the size limit stops has not done bounded work
        small_numeric = {'digits(0 - 255, 16).len()', 'digits(0 - 1).len()', 'digits(0 - 10 ** 50, 7).len()'}
        for e in numeric:
            pj.append({'id': f'b{len(pj)}', 'src': wrap(e), 'calls': ['c0'], 'limits': LIMITS})
            pmeta.append(('small' if e in small_numeric else 'numeric', 'numeric', e, ''))
        t0 = time.time()
        pres = core.run_harness(ctx['binary'], pj, os.path.join(workdir, 'hb'), timeout=90, single_timeout=10)
        kinds = {}
        for job, (kind, s, a, c) in zip(pj, pmeta):
            r = pres.get(job['id'])
            n_eval += 1
            case = {'src': job['src'], 'limits': job['limits']}
            if r is None:
                violations.append({'what': 'the interpreter did not come back under finite limits (lost job)', 'case': case, 'impl': 'lost'})
                continue
            if r.get('compile') != 'ok':
                kinds['does-not-compile'] = kinds.get('does-not-compile', 0) + 1
                continue
            out = str(r['calls'][0]) if r.get('calls') else str(r.get('inst'))
            tag = out.split(':')[0]
            kinds[kind + ':' + tag + (':' + out.split(':')[1][:14] if tag == 'X' else '')] = kinds.get(kind + ':' + tag + (':' + out.split(':')[1][:14] if tag == 'X' else ''), 0) + 1
            if out.startswith('H:') or out.startswith('A:'):
                violations.append({'what': 'a native loop ran past every configured limit (search, calls, size, time): the evaluation had to be killed by the watchdog',
                                   'case': case, 'impl': out})
            elif out.startswith(('P:', 'panic')):
                violations.append({'what': 'the interpreter crashed instead of ending in a violation', 'case': case, 'impl': out[:300]})
            elif kind == 'big' and not out.startswith(('X:', 'E:')):
                violations.append({'what': 'a result that needs more than 150 times the search limit of elements was returned as a value: the work done is not bounded by the limit',
                                   'case': case, 'impl': out[:200]})
            elif kind == 'small' and not (out[:2] in ('s:', 'i:', 'b:') or (c in ('get', 'last') and out.startswith('E:'))):
                violations.append({'what': 'a small pipeline well inside every limit did not produce its value (limits are not transparent)', 'case': case, 'impl': out[:200]})
            else:
                if kind == 'big':
                    distinct.add(job['src'])
                if len(samples) < 5 and kind == 'big' and a not in [x.get('adaptor') for x in samples]:
                    samples.append({'adaptor': a, 'program': job['src'], 'outcome': out[:60]})
        # ------------------------------------------------------------------ (c2) a spent call budget stays spent until the host resets it
        hsrc = 'fn g(i: int) -> int { i + 1 }\nfn f() -> int { range(6).map(g).to_array().len() }'
        hops = [{'op': 'call', 'fn': 'f'}, {'op': 'call', 'fn': 'f'}, {'op': 'call', 'fn': 'f'}, {'op': 'call', 'fn': 'f'}, {'op': 'reset_calls'}, {'op': 'call', 'fn': 'f'}]
        for L in [10, 12, 15, 20]:
            r = core.run_harness(ctx['binary'], [{'id': 'h', 'src': hsrc, 'ops': hops, 'limits': {'ud_calls': L}}], os.path.join(workdir, f'hh{L}'), timeout=60, shards=1).get('h')
            n_eval += 1
            outs = [o['r'] for o in (r.get('ops') or [])] if r else []
            # each f() makes 7 user calls (f and six g): the k-th call of f succeeds while 7k < L
            want = []
            spent = 0
            dead = False
            for o in hops:
                if o['op'] == 'reset_calls':
                    want.append('reset'); spent = 0; dead = False
                    continue
                if dead or spent + 7 >= L:
                    want.append('X:MaximumUDCall'); dead = True; spent = L
                else:
                    want.append('i:6'); spent += 7
            got = [('X:MaximumUDCall' if str(x).startswith('X:MaximumUDCall') else x) for x in outs]
            if got != want:
                violations.append({'what': 'after the call budget was spent a later evaluation on the same runtime ran without it (or a reset did not restore it)',
                                   'case': {'src': hsrc, 'ops': hops, 'limits': {'ud_calls': L}}, 'impl': outs, 'model': want})
            else:
                distinct.add(f'history{L}')
        # ------------------------------------------------------------------ (d) no user call begins after the deadline
        work = 'range(30000).to_generator().map(partial(add{int,int}, 1)).reduce(0, add{int,int})'
        cal_src = f'fn w(i: int) -> int {{ let d = display("#"); {work} }}\nfn c0() -> int {{ range(20).map(w).to_array().len() }}'
        def timed(ncalls, tag):
            src_ = f'fn w(i: int) -> int {{ let d = display("#"); {work} }}\nfn c0() -> int {{ range({ncalls}).map(w).to_array().len() }}'
            t1 = time.time()
            core.run_harness(ctx['binary'], [{'id': 'cal', 'src': src_, 'calls': ['c0'], 'limits': {'size': 1 << 26}}], os.path.join(workdir, 'hc' + tag), timeout=120, shards=1)
            return time.time() - t1
        per_call = min(max((timed(80, f'b{q}') - timed(20, f'a{q}')) / 60, 0.0005) for q in range(3))      # the fastest of three calibrations
        tl_ms = max(10, int(per_call * 1000 * 3))
        allowed = int(tl_ms / 1000 / per_call * 2) + 4
        late = []
        for rep in range(3):
            src = f'fn w(i: int) -> int {{ let d = display("#"); {work} }}\nfn c0() -> int {{ range(100000).map(w).to_array().len() }}'
            r = core.run_harness(ctx['binary'], [{'id': 'tl', 'src': src, 'calls': ['c0'], 'limits': {'time_ms': tl_ms, 'ud_calls': 1000000, 'size': 1 << 26}}],
                                 os.path.join(workdir, f'hd{rep}'), timeout=120, shards=1).get('tl')
            n_eval += 1
            begun = (r.get('stdout') or '').count('#') if r else -1
            out = str(r['calls'][0]) if r and r.get('calls') else str(r and r.get('inst'))
            case = {'src': src, 'limits': {'time_ms': tl_ms, 'ud_calls': 1000000}, 'calibrated_seconds_per_call': round(per_call, 5)}
            if r is None or not out.startswith('X:Timeout'):
                violations.append({'what': 'a chain of user calls far longer than the time limit did not end in the Timeout violation', 'case': case, 'impl': out})
            elif begun > allowed:
                late.append({'what': f'user-function calls kept beginning after the time limit had elapsed: {begun} calls begun, at most {allowed} fit into the limit',
                             'case': case, 'impl': begun})
            else:
                distinct.add(f'timeout{rep}')
        if len(late) == 3:
            # a clock that is not consulted on every call is systematic: reported only when every repetition shows it (a single slow calibration does not)
            violations.extend(late)
        ctx['coverage'] = {'evaluations': n_eval, 'distinct_nontrivial': len(distinct), 'samples': samples, 'grid_points': len(grid), 'pipelines': len(pj), 'pipeline_outcomes': kinds,
                           'timeout_calibration': {'seconds_per_call': round(per_call, 5), 'time_limit_ms': tl_ms, 'calls_allowed': allowed}}
        return violations


PROP = C10()
