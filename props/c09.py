"""C09 - size limit enforced, accounting balances.
Tie: (a) the accounting-event log of real runs (hook) is replayed by the Coq model [Rt.Alloc.run]; the
counters at the phase marks must agree; (b) for limits L landing on every distinct failing point the model
predicts where the run stops, and the implementation must stop there, report the allocation violation,
return to the baseline after the drop, and behave as the unlimited run when L suffices;
(c) repeated runs on one runtime; (d) recorded sizes of ints/strings against the model's size functions;
(e) extracted fact: `size_limit` is read only inside the two guards of runtime.rs."""
import json
import os
import re

from lib import core
from lib.runner import PropertyCheck

BIG = 1 << 40


def programs(rng, n):
    out = []
    for _ in range(n):
        k = rng.choice(['bigint', 'string', 'seq', 'stack', 'set', 'mapping', 'closure', 'struct', 'mixed', 'gen', 'error'])
        a = rng.randint(1, 40)
        b = rng.randint(2, 30)
        if k == 'bigint':
            src = f'let base = {rng.choice([2, 3, 7, 10])}**{rng.randint(60, 400)};\nfn f()->int{{ (base * {a} + {b}) ** {rng.randint(1, 4)} - binom({a + 40}, {a}) }}'
        elif k == 'string':
            src = f'let s = "ab{"é" if rng.random() < 0.5 else "c"}" * {a};\nfn f()->str{{ (s + s).upper() + to_str({b}) * {b} }}'
        elif k == 'seq':
            src = f'let xs = range({a * 3}).map((x:int)->{{x*x+{b}}}).to_array();\nfn f()->Sequence<int>{{ (xs + xs.reverse()).push({b}).to_array() }}'
        elif k == 'stack':
            src = f'let e: Stack<int> = stack();\nlet st = range({a}).to_generator().reduce(e, (s: Stack<int>, x: int)->{{s.push(x)}});\nfn f()->int{{ st.push({b}).to_array().len() }}'
        elif k == 'set':
            src = f'let st = set((x:int)->{{x % {b}}}, eq{{int,int}}).update(range({a * 2}));\nfn f()->int{{ st.add({a + 1000}).remove({a + 1000}).len() + st.len() }}'
        elif k == 'mapping':
            src = f'let m = mapping((x:int)->{{x % {b}}}, eq{{int,int}}).update(range({a * 2}).map((i:int)->{{(i, to_str(i))}}));\nfn f()->int{{ m.set({a}, "zz").len() + m.len() }}'
        elif k == 'closure':
            src = f'fn mk(k: int)->(int)->(int){{ let big = k ** {b}; (x: int)->{{ x + big }} }}\nlet fs = range({a}).map(mk).to_array();\nfn f()->int{{ fs.map((g: (int)->(int))->{{ g(1) }}).to_array().sum() }}'
        elif k == 'struct':
            src = f'struct P(a: int, b: str, c: Sequence<int>)\nunion U(l: P, r: int)\nlet p = P({a} ** {b}, "q" * {a}, [1,2,3]);\nfn f()->int{{ let u = U::l(P(p::a * 2, p::b + p::b, p::c + p::c)); u?:l.map((x: P)->{{x::c.len()}}).or(0) + p::a.to_str().len() }}'
        elif k == 'gen':
            src = f'fn f()->Sequence<int>{{ count().map((x:int)->{{x**{rng.randint(2, 30)}}}).filter((x:int)->{{x % 2 == 0}}).take({a}).to_array() }}'
        elif k == 'error':
            src = f'let xs = range({a}).to_array();\nfn f()->int{{ if_error(xs[{a + 5}], {b}) + if_error(error("boom" * {b}), 1) }}'
        else:
            src = f'let t = ({a} ** {b}, "x" * {b}, [{a}, {b}]);\nfn f()->int{{ t::item0 % 1000 + t::item1.len() + t::item2.len() }}'
        out.append((k, src))
    return out


def parse_log(txt):
    evs = []
    for tok in txt.split():
        fail = tok.endswith('!')
        if fail:
            tok = tok[:-1]
        evs.append((tok[0], int(tok[1:]), fail))
    return evs


def coq_evs(evs):
    m = {'A': 'EA', 'D': 'ED', 'C': 'EC'}
    return '[' + '; '.join(f'{m[k]} {sz}' for k, sz, _ in evs) + ']%N'


class C09(PropertyCheck):
    id = 'C09'
    imports = ('From Coq Require Import NArith String List.\nFrom Xr Require Import Base.Res Base.Show Rt.Alloc.\n'
               'Import ListNotations.\n'
               'Definition show_run (r : st * N * option (res unit)) : string :=\n'
               '  let \'(s, n, o) := r in (show_N (size s) ++ " " ++ show_N n ++ " " ++ match o with None => "ok" | Some (Viol _) => "viol" | Some _ => "stuck" end)%string.\n'
               'Definition run_seq (L : N) (segs : list (list ev)) : string :=\n'
               '  (fix go (s : st) (n : N) (segs : list (list ev)) : string := match segs with [] => ""%string | seg :: r =>\n'
               '     let \'(s\', n\', o) := run L s seg n in (show_run (s\', n\', o) ++ ";" ++ match o with None => go s\' n\' r | _ => ""%string end)%string end) init 0%N segs.\n')
    technique = 'Coq proof of the accounting invariant over all event histories + replay of real accounting traces through the model'
    trusted = ['Rc/Drop discipline of Rust (each managed value is dropped exactly once) is observed through the event log, not proved',
               'hook: verif_alloc_log / verif_accounted_bytes in src/runtime.rs (cfg xray_verif)']
    assumptions = ['a run is abstracted to its sequence of allocate/deallocate/can_allocate events',
                   'size_of::<XValue>() = 32, size_of::<BigInt>() = 32, size_of::<FencedString>() = 48 on this target (checked by the payload probes)']
    rule = ('programs building ints/strings/sequences/stacks/sets/mappings/closures/compounds; for each, limits L landing on distinct '
            'failing allocation points (record highs of counter+size in the unlimited trace); distinct = (program, L); non-trivial = the '
            'run fails at an event index different from any other L of that program, or passes with L >= need')

    def generate(self, rng, tier):
        return []

    def extracted_obligations(self):
        obl = []
        # the limit enters only through guards: `size_limit` must not be read outside runtime.rs
        hits = []
        for dp, dn, fn in os.walk('/repo/src'):
            for f in fn:
                if f.endswith('.rs'):
                    p = os.path.join(dp, f)
                    txt = open(p, errors='replace').read()
                    for m in re.finditer(r'size_limit', txt):
                        hits.append(os.path.relpath(p, '/repo'))
        outside = sorted({h for h in hits if h != 'src/runtime.rs'})
        obl.append(('size_limit_only_in_guards', not outside, 'size_limit referenced outside runtime.rs: ' + ', '.join(outside)))
        rt = open('/repo/src/runtime.rs').read()
        # inside runtime.rs: struct field, the two guard functions, nothing else
        uses = [l.strip() for l in rt.splitlines() if 'size_limit' in l and not l.strip().startswith('//')]
        allowed = [r'pub size_limit: Option<usize>', r'if let Some\(size_limit\) = self\.limits\.size_limit',
                   r'if let Some\(max_size\) = self\.limits\.size_limit', r'> size_limit', r'<= size_limit']
        odd = [u for u in uses if not any(re.search(a, u) for a in allowed)]
        obl.append(('size_limit_uses_are_guards', not odd, 'unexpected use of size_limit in runtime.rs: ' + ' | '.join(odd)))
        return obl

    def extra_checks(self, ctx):
        rng = ctx['rng']
        tier = ctx['tier']
        workdir = ctx['workdir']
        binary = ctx['binary']
        nprog = 14 if tier == 'quick' else 80
        per_prog = 8 if tier == 'quick' else 30
        progs = programs(rng, nprog)
        violations = []
        # ---- pass 1: unlimited traces
        jobs = [{'id': f'u{i}', 'src': src, 'calls': ['f'], 'limits': {'size': BIG}, 'alloc_log': True}
                for i, (_, src) in enumerate(progs)]
        res = core.run_harness(binary, jobs, os.path.join(workdir, 'h_unl'))
        traces = {}
        terms = []
        term_of = []
        for i, (kind, src) in enumerate(progs):
            r = res.get(f'u{i}')
            if not r or r.get('compile') != 'ok':
                raise core.CheckError(f'C09 generator produced a program that does not compile: {src}\n{r and r.get("compile")}')
            if r.get('inst') != 'ok' or not r.get('calls') or r['calls'][0][:2] in ('X:', 'P:', 'H:', 'A:'):
                violations.append({'what': 'program fails without any effective limit', 'case': {'src': src}, 'impl': r})
                continue
            segs = [parse_log(r['alloc_log'][k]) for k in ('inst', 'run', 'drop')]
            traces[i] = (segs, r)
            terms.append(f'run_seq {BIG} [{"; ".join(coq_evs(s) for s in segs)}]')
            term_of.append(i)
        model = core.coq_eval(terms, self.imports, os.path.join(workdir, 'coq_unl'), shard_size=2)
        n_eval = 0
        distinct = 0
        samples = []
        for i, m in zip(term_of, model):
            segs, r = traces[i]
            n_eval += 1
            if m is None:
                raise core.CheckError('model evaluation failed for an unlimited trace')
            parts = [p.split() for p in m.strip(';').split(';')]
            want = [str(r['bytes']['inst']), str(r['bytes']['end']), str(r['bytes']['after_drop'])]
            got = [p[0] for p in parts]
            if any(p[2] != 'ok' for p in parts) or got != want or r['bytes']['after_drop'] != 0:
                violations.append({'what': 'accounting trace of a real run is not a well-formed history of the model, or the counters differ '
                                           '(model sizes after inst/run/drop vs implementation)',
                                   'case': {'src': progs[i][1], 'limits': {'size': BIG}}, 'model': m, 'impl': r['bytes']})
        # ---- pass 2: sweep of L over distinct failing points
        sweep_jobs = []
        sweep_terms = []
        meta = []
        for i, (segs, r) in traces.items():
            flat = segs[0] + segs[1]
            cur = 0
            high = 0
            cands = []
            for k, sz, _ in flat:
                if k in ('A', 'C'):
                    if cur + sz > high:
                        high = cur + sz
                        cands.append(high - 1)      # fails exactly here
                    if k == 'A':
                        cur += sz
                else:
                    cur -= sz
            need = high
            base_c = [c for c in cands if c > 0]
            rng.shuffle(base_c)
            chosen = sorted(set(base_c[:per_prog] + ([base_c[-1]] if base_c else []) + [need, need + 1, need + 1000]))
            for L in chosen:
                jid = f's{i}_{L}'
                sweep_jobs.append({'id': jid, 'src': progs[i][1], 'calls': ['f'], 'limits': {'size': L}, 'alloc_log': True})
                sweep_terms.append(f'run_seq {L} [{coq_evs(flat)}]')
                meta.append((i, L, need, flat))
        res2 = core.run_harness(binary, sweep_jobs, os.path.join(workdir, 'h_sweep'))
        model2 = core.coq_eval(sweep_terms, self.imports, os.path.join(workdir, 'coq_sweep'), shard_size=4)
        seen_points = set()
        for (i, L, need, flat), job, m in zip(meta, sweep_jobs, model2):
            n_eval += 1
            r = res2.get(job['id'])
            if m is None or r is None:
                raise core.CheckError(f'sweep evaluation failed for {job["id"]}')
            msz, mn, mo = m.strip(';').split(';')[0].split()
            unl = traces[i][1]
            case = {'src': progs[i][1], 'limits': {'size': L}, 'need': need}
            impl_viol = (r.get('inst', '').startswith('viol:AllocationLimitReached') or
                         (r.get('calls') and r['calls'][0] == 'X:AllocationLimitReached'))
            if mo == 'viol':
                log = parse_log(r['alloc_log']['inst'] + ' ' + r['alloc_log'].get('run', ''))
                k = int(mn)
                okprefix = [(a, b) for a, b, _ in log[:k]] == [(a, b) for a, b, _ in flat[:k]]
                failing = log[k] if len(log) > k else None
                after = log[k + 1:]
                if not impl_viol:
                    violations.append({'what': 'size limit not enforced: the model stops at an allocation the limit forbids, the implementation does not report AllocationLimitReached',
                                       'case': case, 'model': m, 'impl': {'inst': r.get('inst'), 'calls': r.get('calls')}})
                elif not okprefix or failing is None or not failing[2] or (failing[0], failing[1]) != (flat[k][0], flat[k][1]):
                    violations.append({'what': 'the run under limit L does not stop at the first failing guard of its unlimited trace',
                                       'case': case, 'model': m, 'impl': {'failing_event': failing, 'index': k}})
                elif any(e[0] != 'D' for e in after):
                    violations.append({'what': 'accounting events other than deallocations after the violation', 'case': case,
                                       'impl': after[:10]})
                if r['bytes']['after_drop'] != 0:
                    violations.append({'what': 'accounted bytes do not return to the baseline after a run that ended in a violation',
                                       'case': case, 'impl': r['bytes']})
                if (i, k) not in seen_points:
                    seen_points.add((i, k))
                    distinct += 1
            else:
                if impl_viol or r.get('calls') != unl.get('calls') or r.get('inst') != 'ok':
                    violations.append({'what': 'a limit that suffices changes the outcome (passing runs must not depend on L)',
                                       'case': case, 'model': m, 'impl': {'inst': r.get('inst'), 'calls': r.get('calls')},
                                       'unlimited': unl.get('calls')})
                if r['bytes']['after_drop'] != 0 or r['bytes']['end'] > L:
                    violations.append({'what': 'accounted bytes exceed L or do not return to baseline', 'case': case, 'impl': r['bytes']})
                distinct += 1
            if len(samples) < 6:
                samples.append({'program': progs[i][1], 'L': L, 'model_run': m, 'impl_outcome': r.get('calls') or r.get('inst')})
        # ---- pass 3: repeated runs on one runtime
        hist_jobs = []
        for i, (kind, src) in enumerate(progs[: (6 if tier == 'quick' else 30)]):
            ops = []
            for _ in range(rng.randint(3, 8)):
                ops.append({'op': rng.choice(['call', 'call_keep', 'call_keep', 'drop_results']), 'fn': 'f'})
            ops.append({'op': 'drop_results'})
            hist_jobs.append({'id': f'h{i}', 'src': src, 'ops': ops, 'limits': {'size': BIG}})
        res3 = core.run_harness(binary, hist_jobs, os.path.join(workdir, 'h_hist'))
        for job in hist_jobs:
            r = res3.get(job['id'])
            n_eval += 1
            if not r or r.get('inst') != 'ok':
                continue
            inst = r['bytes']['inst']
            prev = inst
            kept = 0
            for op, o in zip(job['ops'], r['ops']):
                b = o['bytes']
                bad = False
                if op['op'] == 'call' and b != prev:
                    bad = True
                if op['op'] == 'drop_results' and b != inst:
                    bad = True
                if op['op'] == 'call_keep' and b < prev:
                    bad = True
                if bad:
                    violations.append({'what': 'accounted bytes do not balance over repeated runs on one runtime '
                                               '(call without keeping the result must not change the total; dropping results returns to the post-instantiation level)',
                                       'case': {'src': job['src'], 'ops': job['ops']}, 'impl': [x['bytes'] for x in r['ops']], 'inst': inst})
                    break
                prev = b
            if r['bytes']['after_drop'] != 0:
                violations.append({'what': 'bytes after dropping the scope are not zero', 'case': {'src': job['src'], 'ops': job['ops']}, 'impl': r['bytes']})
            distinct += 1
        # ---- pass 4: recorded sizes vs the model's size functions (payload)
        pay_jobs = []
        pay_terms = []
        pay_meta = []
        for _ in range(10 if tier == 'quick' else 60):
            if rng.random() < 0.5:
                bits = rng.choice([10, 62, 63, 64, 65, 127, 128, 129, 640, 6400, rng.randint(1, 3000)])
                src = f'fn f()->int{{ 2 ** {bits} }}'
                val = 2 ** bits
                fits = val < 2 ** 63
                pay_terms.append(f'show_N (int_size {"true" if fits else "false"} {val}%N)')
                payload = (bits + 8) // 8
            else:
                n = rng.randint(0, 300)
                ch = rng.choice(['a', 'é', '€', '😀'])
                src = f'fn f()->str{{ "{ch}" * {n} }}'
                nbytes = len(ch.encode()) * n
                ascii_ = ch == 'a' or n == 0
                pay_terms.append(f'show_N (str_size {nbytes}%N {n}%N {"true" if ascii_ else "false"})')
                payload = nbytes
            pay_jobs.append({'id': f'p{len(pay_jobs)}', 'src': src, 'ops': [{'op': 'call_keep', 'fn': 'f'}], 'limits': {'size': BIG}})
            pay_meta.append((src, payload))
        # containers: recorded size of the container value itself = last allocation event of the run, relative to the
        # empty container (cancels the static part), against the model's dyn_size formulas
        cont_jobs = []
        cont_terms = []
        cont_meta = []
        for _ in range(8 if tier == 'quick' else 50):
            kind = rng.choice(['seq', 'map', 'set'])
            n = rng.randint(0, 60)
            b = rng.choice([1, 2, 3, 7, 1000])
            nb = min(n, b)
            if kind == 'seq':
                src = f'fn f()->Sequence<int>{{ range({n}).map((x:int)->{{x+1}}).to_array() }}\nfn empt()->Sequence<int>{{ range(0).map((x:int)->{{x+1}}).to_array() }}'
                term = f'show_N (seq_dyn {n}%N - seq_dyn 0%N)'
                payload = 8 * n
            elif kind == 'map':
                src = (f'fn f()->Mapping<int,int>{{ mapping((x:int)->{{x % {b}}}, eq{{int,int}}).update(range({n}).map((i:int)->{{(i, i)}})) }}\n'
                       f'fn empt()->Mapping<int,int>{{ mapping((x:int)->{{x % {b}}}, eq{{int,int}}).update(range(0).map((i:int)->{{(i, i)}})) }}')
                term = f'show_N (map_dyn {nb}%N {n}%N - map_dyn 0%N 0%N)'
                payload = 16 * n
            else:
                src = (f'fn f()->Set<int>{{ set((x:int)->{{x % {b}}}, eq{{int,int}}).update(range({n})) }}\n'
                       f'fn empt()->Set<int>{{ set((x:int)->{{x % {b}}}, eq{{int,int}}).update(range(0)) }}')
                term = f'show_N (set_dyn {nb}%N {n}%N - set_dyn 0%N 0%N)'
                payload = 8 * n
            k = len(cont_jobs) // 2
            cont_jobs.append({'id': f'cf{k}', 'src': src, 'calls': ['f'], 'limits': {'size': BIG}, 'alloc_log': True})
            cont_jobs.append({'id': f'ce{k}', 'src': src, 'calls': ['empt'], 'limits': {'size': BIG}, 'alloc_log': True})
            cont_terms.append(term)
            cont_meta.append((src, payload, kind, n, b))
        res5 = core.run_harness(binary, cont_jobs, os.path.join(workdir, 'h_cont'))
        model5 = core.coq_eval(cont_terms, self.imports, os.path.join(workdir, 'coq_cont'))
        for k, ((src, payload, kind, n, b), m) in enumerate(zip(cont_meta, model5)):
            rf, re_ = res5.get(f'cf{k}'), res5.get(f'ce{k}')
            n_eval += 1
            if not rf or not re_ or rf.get('inst') != 'ok' or m is None:
                raise core.CheckError('container payload probe failed to run: ' + src)
            def last_alloc(r):
                evs = [e for e in parse_log(r['alloc_log']['run']) if e[0] == 'A']
                return evs[-1][1] if evs else 0
            delta = last_alloc(rf) - last_alloc(re_)
            if delta < payload:
                violations.append({'what': f'a live {kind} of {n} elements (hash mod {b}) is accounted for less than its payload',
                                   'case': {'src': src}, 'impl': delta, 'payload': payload})
            elif str(delta) != m:
                violations.append({'what': f'recorded size of a {kind} differs from the model dyn_size formula', 'case': {'src': src},
                                   'impl': delta, 'model': m})
            else:
                distinct += 1
        res4 = core.run_harness(binary, pay_jobs, os.path.join(workdir, 'h_pay'))
        model4 = core.coq_eval(pay_terms, self.imports, os.path.join(workdir, 'coq_pay'))
        for job, (src, payload), m in zip(pay_jobs, pay_meta, model4):
            r = res4.get(job['id'])
            n_eval += 1
            if not r or r.get('inst') != 'ok' or m is None:
                continue
            delta = r['ops'][0]['bytes'] - r['bytes']['inst']
            if delta < payload:
                violations.append({'what': 'a live value is accounted for less than its payload', 'case': {'src': src}, 'impl': delta, 'payload': payload})
            elif str(delta) != m:
                violations.append({'what': 'recorded size of a value differs from the model size function', 'case': {'src': src}, 'impl': delta, 'model': m})
            else:
                distinct += 1
        ctx['coverage'] = {'evaluations': n_eval, 'distinct_nontrivial': distinct, 'samples': samples,
                           'programs': len(progs), 'sweep_points': len(sweep_jobs), 'host_histories': len(hist_jobs),
                           'payload_probes': len(pay_jobs) + len(cont_terms)}
        return violations


PROP = C09()
