"""C06 - errors propagate as values; violations cannot be caught.
(a) error injection: typed random programs with an error-producing subexpression at a quarter of all argument
    positions, compared with the reference evaluator INCLUDING the error text (so the leftmost error must win);
(b) construction / insertion forms and higher-order builtins with an error component (struct, union, tuple, array,
    push/set/insert, mapping/set/stack insertion, some, callbacks returning errors): the result must be that error;
(c) violations: programs whose limit trips inside if_error / is_error / map / reduce callbacks / default parameters,
    for limit values landing on every user call: the outcome must be the violation (never a value or an error)."""
import os

from lib import core
from lib.lang import D, E, I, V, call
from lib.runner import PropertyCheck
from props.c02 import IMPORTS, gen_program, impl_observation, model_term
from props.c08 import lim_coq


FORMS = [
    # (source returning str through to_str(...) or error, description) ; ERR is replaced by a typed error expression
    ('to_str([1, ERRI, 3])', 'array literal'),
    ('to_str((1, ERRI))', 'tuple'),
    ('to_str(members(P(1, ERRI)))', 'struct construction'),
    ('to_str(members(P(ERRI, 2)))', 'struct construction (first field)'),
    ('to_str(U::a(ERRI)!:a)', 'union variant payload'),
    ('to_str([1, 2].push(ERRI))', 'push'),
    ('to_str([1, 2].rpush(ERRI))', 'rpush'),
    ('to_str([1, 2].set(0, ERRI))', 'sequence set'),
    ('to_str([1, 2].insert(0, ERRI))', 'sequence insert'),
    ('to_str([1, 2].set(ERRI, 5))', 'sequence set (index)'),
    ('to_str(mapping<int>().set(1, ERRI).len())', 'mapping insertion (value)'),
    ('to_str(mapping<int>().set(ERRI, 1).len())', 'mapping insertion (key)'),
    ('to_str(mapping<int>().set_default(1, ERRI).len())', 'mapping default-insert'),
    ('to_str(mapping<int>().update([(1, ERRI)]).len())', 'mapping bulk update'),
    ('to_str(set<int>().add(ERRI).len())', 'set insertion'),
    ('to_str(set<int>().update([1, ERRI]).len())', 'set bulk update'),
    ('to_str(stack().push(1).push(ERRI).to_array())', 'stack push'),
    ('to_str(some(ERRI))', 'some'),
    ('to_str([1, 2, 3].map((x: int)->{ if(x == 2, ERRI, x) }).to_array())', 'map callback'),
    ('to_str([1, 2, 3].to_generator().map((x: int)->{ if(x == 2, ERRI, x) }).to_array())', 'generator map callback'),
    ('to_str([1, 2, 3].filter((x: int)->{ if(x == 2, ERRB, true) }).to_array())', 'filter callback'),
    ('to_str([1, 2, 3].reduce(0, (a: int, x: int)->{ if(x == 2, ERRI, a + x) }))', 'reduce callback'),
    ('to_str([3, 1, 2].sort((a: int, b: int)->{ if(a == 2, ERRI, cmp(a, b)) }))', 'sort comparator'),
    ('to_str([1, 2, 3].to_generator().take_while((x: int)->{ if(x == 2, ERRB, true) }).to_array())', 'take_while predicate'),
    ('to_str(zip([1, 2], [3, ERRI]))', 'zip of array with error element'),
    ('to_str([ERRI, ERRJ])', 'two errors: leftmost'),
    ('to_str(add(ERRI, ERRJ))', 'two errors in a native call: leftmost'),
    ('to_str(uf(ERRI, ERRJ))', 'two errors in a user call: leftmost'),
    ('to_str(uf(1, ERRJ))', 'user function with error argument'),
    ('to_str(max(1, ERRJ))', 'library function written in xray with error argument'),
    ('to_str(ERRI + 1 > 0 && true)', 'operators'),
    ('to_str(if(ERRB, 1, 2))', 'condition of if is strict'),
    ('to_str(display(ERRI))', 'display'),
    # receivers that are empty (early-exit paths must still evaluate and propagate the argument)
    ('to_str(mapping<int>().discard(ERRI).len())', 'mapping discard on an empty mapping'),
    ('to_str(mapping<int>().set(1, 1).discard(ERRI).len())', 'mapping discard'),
    ('to_str(mapping<int>().pop(ERRI).len())', 'mapping pop on an empty mapping'),
    ('to_str(mapping<int>().set(1, 1).lookup(ERRI).has_value())', 'mapping lookup'),
    ('to_str(mapping<int>().set(1, 1).get(ERRI, 5))', 'mapping get with default'),
    ('to_str(mapping<int>().set(1, 1).contains(ERRI))', 'mapping contains'),
    ('to_str(set<int>().discard(ERRI).len())', 'set discard on an empty set'),
    ('to_str(set<int>().remove(ERRI).len())', 'set remove on an empty set'),
    ('to_str(set<int>().contains(ERRI))', 'set contains on an empty set'),
    ('to_str(range(0).to_array().push(ERRI))', 'push on an empty sequence'),
    ('to_str(range(0).to_array().take(ERRI))', 'take with error count'),
    ('to_str(range(0) + ERRS)', 'concatenation of empty with error'),
    ('to_str([1].pop(ERRI))', 'sequence pop'),
    ('to_str(is_error(partial(uf, ERRI)))', 'partial application with an error argument'),
    ('to_str(partial(uf, ERRI)(1))', 'calling a partial application built with an error argument'),
    # self calls in tail position with an error argument
    ('to_str(cd(1, 0))', 'tail self-call with an error argument (parameter unused afterwards)'),
    ('to_str(cd(3, 0))', 'tail self-call with an error argument, deeper'),
    ('to_str(cdn(2, 0))', 'non-tail self-call with an error argument'),
    # generator adaptors over an upstream that yields an error for one element
    ('to_str(GEN.group((a: int, b: int)->{a == b}).to_array())', 'generator group with upstream error'),
    ('to_str(GEN.filter((x: int)->{x > 0}).to_array())', 'generator filter with upstream error'),
    ('to_str(GEN.take_while((x: int)->{x > 0}).to_array())', 'generator take_while with upstream error'),
    ('to_str(GEN.skip_until((x: int)->{x > 100}).to_array())', 'generator skip_until with upstream error'),
    ('to_str(GEN.enumerate().to_array())', 'generator enumerate with upstream error'),
    ('to_str(GEN.chunks(2).to_array())', 'generator chunks with upstream error'),
    ('to_str(GEN.windows(2).to_array())', 'generator windows with upstream error'),
    ('to_str(GEN.aggregate((a: int, b: int)->{a + b}).to_array())', 'generator aggregate with upstream error'),
    ('to_str(GEN.distinct().to_array())', 'generator distinct with upstream error'),
    ('to_str(GEN.zip([1, 2, 3, 4, 5].to_generator()).to_array())', 'generator zip with upstream error'),
    ('to_str(GEN.len())', 'generator len with upstream error'),
    ('to_str(GEN.last())', 'generator last with upstream error'),
    ('to_str(GEN.reduce((a: int, b: int)->{a + b}))', 'generator reduce with upstream error'),
    ('to_str(GEN.sum())', 'generator sum with upstream error'),
    ('to_str(GEN.join())', 'generator join with upstream error'),
]
PRELUDE = ('struct P(a: int, b: int)\nunion U(a: int, b: str)\nfn uf(x: int, y: int)->int { display(x + y) }\n'
           'fn cd(n: int, x: int)->int { if(n == 0, 7, cd(n - 1, if(n == 1, ERRI, x))) }\n'
           'fn cdn(n: int, x: int)->int { if(n == 0, 7, 1 + cdn(n - 1, if(n == 1, ERRI, x))) }\n')


class C06(PropertyCheck):
    id = 'C06'
    imports = IMPORTS
    technique = 'Coq lemmas on the evaluator monad (only mcatch handles, and only error values; leftmost failure decides) + error-injection and violation-sweep correspondence'
    trusted = ['natives outside the modelled set are covered by the construction/insertion templates with a direct oracle (the injected leftmost error must be the result)']
    assumptions = ['see C02 for the evaluator']
    rule = ('(a) typed programs with error rate 0.25 per subexpression, error TEXT compared; (b) 33 construction/insertion/callback forms x error kinds; '
            '(c) handler-rich programs x depth/call limits on every user call; distinct = distinct (program, limits); non-trivial = an error or violation is involved')

    def generate(self, rng, tier):
        return []

    def extra_checks(self, ctx):
        rng, tier, workdir = ctx['rng'], ctx['tier'], ctx['workdir']
        violations, samples = [], []
        distinct, n_eval = 0, 0
        # ---- (a) error injection with text comparison
        n = 150 if tier == 'quick' else 2000
        jobs, terms = [], []
        for i in range(n):
            decls, obs = gen_program(rng, nobs=6, err_rate=0.25, depth=3)
            jobs.append({'id': f'a{i}', 'src': '\n'.join(d.xr() for d in decls), 'calls': obs})
            terms.append(model_term(decls, obs))
        # ---- (c) violations inside handlers: wrap observed expressions into handlers and sweep limits
        vjobs, vterms = [], []
        for i in range(25 if tier == 'quick' else 300):
            decls, obs = gen_program(rng, nobs=0, err_rate=0.05, depth=3)
            if 'reduce(' in '\n'.join(d.xr() for d in decls):
                continue
            fns = [d for d in decls if d.kind == 'fn']
            cands = [d for d in fns if d.a[2] == 'int' and all(p[1] == 'int' for p in d.a[1])]
            if cands:
                target = rng.choice(cands)
                tcall = call(target.a[0], *[I(rng.randint(0, 5)) for _ in target.a[1]])
            else:
                tcall = call('display', I(1))
            # a recursive helper guarantees nesting depth and call count for the sweep
            helper = D('fn', 'deep', [('n', 'int', None)], 'int', [], call('if', call('le', V('n'), I(0), style='op'), tcall,
                                                                       call('add', I(1), call('deep', call('sub', V('n'), I(1), style='op')), style='op')))
            wraps = [
                call('to_str', call('if_error', call('deep', I(4)), I(-1))),
                call('to_str', call('is_error', call('deep', I(4)))),
                call('to_str', call('to_array', call('map', E('arr', [I(3), I(4)]), E('lam', [('k', 'int', None)], [], call('if_error', call('deep', V('k')), I(-2)))), style='method')),
                call('to_str', call('if_error', call('if', E('bool', True), call('error', E('str', 'e')), I(0)), call('deep', I(5)))),
                call('to_str', call(E('lam', [('z', 'int', call('if_error', call('deep', I(3)), I(-3)))], [], V('z')))),
            ]
            prog = decls + [helper] + [D('fn', f'w{k}', [], 'str', [], w) for k, w in enumerate(wraps)]
            names = [f'w{k}' for k in range(len(wraps))]
            src = '\n'.join(d.xr() for d in prog)
            cq_decls = prog
            for L in ([2, 4, 5, 6, 7, 9] if tier == 'quick' else range(1, 12)):
                for lim in ({'depth': L}, {'ud_calls': L * 2}):
                    vjobs.append({'id': f'v{i}_{len(vjobs)}', 'src': src, 'calls': names, 'limits': lim})
                    vterms.append(f'run_program (N.to_nat 6000%N) {lim_coq(lim)} [{"; ".join(d.coq() for d in cq_decls)}] [{"; ".join(chr(34) + x + chr(34) for x in names)}]%string')
        res = core.run_harness(ctx['binary'], jobs + vjobs, os.path.join(workdir, 'h'), timeout=300)
        model = core.coq_eval(terms + vterms, self.imports, os.path.join(workdir, 'coq'), shard_size=10, timeout=900)
        skipped = 0
        for job, m in zip(jobs + vjobs, model):
            r = res.get(job['id'])
            n_eval += 1
            if m is None or 'FUEL' in m or r is None or r.get('compile') != 'ok':
                skipped += 1
                continue
            got = impl_observation(r)
            want = m
            if 'ud_calls' not in (job.get('limits') or {}):
                got, want = got.rsplit('|', 1)[0], want.rsplit('|', 1)[0]
            if got != want:
                if job['id'].startswith('v'):
                    what = 'a runtime violation raised inside an error handler / callback / default was observed, converted or suppressed (or a value was produced instead)'
                else:
                    what = 'an error value did not propagate as documented (wrong / missing error, or not the leftmost one)'
                violations.append({'what': what, 'case': {'src': job['src'], 'limits': job.get('limits')}, 'impl': got[:500], 'model': want[:500]})
            else:
                if 'E:' in want or 'X:' in want:
                    distinct += 1
                if len(samples) < 4 and 'X:' in want:
                    samples.append({'limits': job.get('limits'), 'observed': got[:200]})
        if skipped > n_eval // 3:
            raise core.CheckError(f'too many programs skipped ({skipped}/{n_eval})')
        # ---- (b) construction / insertion / callback forms: direct oracle = the injected (leftmost) error
        fjobs, fmeta = [], []
        for src_t, desc in FORMS:
            for msg in ('boom', 'e2'):
                erri = f'if(true, error("{msg}"), 0)'
                errj = 'if(true, error("second"), 0)'
                errb = f'if(true, error("{msg}"), false)'
                errs = f'if(true, error("{msg}"), [1])'
                gen = f'[4, 4, 2, 8, 8].to_generator().map((x: int)->{{ if(x == 2, {erri}, x) }})'
                if 'GEN.join' in src_t:
                    gen = f'["a", "b", "c"].to_generator().map((x: str)->{{ if(x == "b", if(true, error("{msg}"), ""), x) }})'
                full = (PRELUDE + 'fn f()->str { ' + src_t + ' }').replace('GEN', gen).replace('ERRI', erri).replace('ERRJ', errj).replace('ERRB', errb).replace('ERRS', errs)
                src = full
                expected = 'second' if not any(k in src_t for k in ('ERRI', 'ERRB', 'ERRS', 'GEN', 'cd(', 'cdn(')) else msg
                if src_t.startswith('to_str(is_error(partial'):
                    expected = None          # the partial application itself is the error: is_error(...) is true
                fjobs.append({'id': f'f{len(fjobs)}', 'src': src, 'calls': ['f']})
                fmeta.append((desc, expected, src))
        fres = core.run_harness(ctx['binary'], fjobs, os.path.join(workdir, 'hf'))
        for job, (desc, expected, src) in zip(fjobs, fmeta):
            r = fres.get(job['id'])
            n_eval += 1
            if r is None or r.get('compile') != 'ok':
                print('FORM-NOT-COMPILING', desc, (r and r.get('compile') or '')[:160].replace('\n', ' '), flush=True)
                continue
            out = r['calls'][0] if r.get('inst') == 'ok' else 'I:' + str(r.get('inst'))
            if expected is None:
                if out != 's:true':
                    violations.append({'what': f'{desc}: a function applied to an error argument must BE that error, not a value that carries it', 'case': {'src': src}, 'impl': out[:200], 'model': 's:true'})
                else:
                    distinct += 1
                continue
            if out != 'E:' + expected:
                violations.append({'what': f'{desc}: an error component must make the whole result that (leftmost) error; the user function body / output must not run',
                                   'case': {'src': src}, 'impl': out[:200] + ' | stdout=' + repr(r.get('stdout', ''))[:60], 'model': 'E:' + expected})
            elif r.get('stdout'):
                violations.append({'what': f'{desc}: output was written although an argument was an error (a body ran)', 'case': {'src': src}, 'impl': r.get('stdout')[:100]})
            else:
                distinct += 1
        # ---- (d) a violation raised inside one element of a generator pipeline reaches the host through every adaptor
        ADAPT = ['', '.repeat()', '.repeat(2)', '.filter((x: int)->{true})', '.skip(0)', '.take_while((x: int)->{true})', '.skip_until((x: int)->{true})', '.enumerate()',
                 '.windows(1)', '.chunks(1)', '.group((a: int, b: int)->{a == b})', '.distinct()', '.with_count()', '.aggregate((a: int, b: int)->{a + b})',
                 '.zip(count().to_generator())', '.add([5].to_generator())', '.map((x: int)->{x})']
        ajobs, ameta = [], []
        # ... also when the element is in a skipped prefix (it is evaluated while being skipped)
        ADAPT_SKIP = ['.skip(1)', '.skip(2)', '.skip(1).take(5)', '.take(5).skip(1)', '.skip(1).skip(1)', '.filter((x: int)->{true}).skip(2)']
        for first, adl in ((('[100, 1]', '[1, 100]', '[100]'), ADAPT), (('[100, 1, 2, 3]', '[1, 100, 2, 3]', '[1, 2, 100, 3]'), ADAPT_SKIP)):
          for first in first:
            for ad in adl:
                  for cons in ('.take(3).to_array().len()', '.take(3).len()', '.take(3).last()'):
                      src = ('fn deep(n: int)->int { if(n == 0, 0, 1 + deep(n - 1)) }\n'
                             f'fn f()->str {{ to_str({first}.to_generator().map(deep){ad}{cons}) }}')
                      ajobs.append({'id': f'a{len(ajobs)}', 'src': src, 'calls': ['f'], 'limits': {'depth': 30, 'search': 100000}})
                      ameta.append((first, ad, cons))
        ares = core.run_harness(ctx['binary'], ajobs, os.path.join(workdir, 'hv'))
        for job, (first, ad, cons) in zip(ajobs, ameta):
            r = ares.get(job['id'])
            n_eval += 1
            if r is None or r.get('compile') != 'ok':
                print('ADAPTOR-FORM-NOT-COMPILING', ad, (r and r.get('compile') or '')[:160].replace('\n', ' '), flush=True)
                continue
            out = r['calls'][0]
            if not out.startswith('X:MaximumStackDepth'):
                violations.append({'what': f'a stack-depth violation raised inside an element of the pipeline {first}.map(deep){ad} was swallowed: the host got a result instead',
                                   'case': {'src': job['src'], 'limits': job['limits']}, 'impl': out[:200], 'model': 'X:MaximumStackDepth'})
            else:
                distinct += 1
        # ---- (e) an error produced by a user callback INSIDE a collection operation (the equality of a mapping / set whose bucket is
        # occupied, so that the comparison really runs) is the result of that operation: never 'not found', never a silent second entry
        PRE = ('let hf = (x: int)->{ 0 };\nlet ef = (a: int, b: int)->{ if(a + b == 3, error("eqfail"), a == b) };\n'
               'fn m1()->Mapping<int,int>{ mapping(hf, ef).set(1, 10) }\nfn s1()->Set<int>{ set(hf, ef).add(1) }\n')
        EQ_OPS = ['m1().set(2, 20).len()', 'm1().lookup(2)', 'm1().get(2)', 'm1().contains(2)', 'm1().set_default(2, 5).len()', 'm1().pop(2).len()', 'm1().discard(2).len()',
                  'm1().update([(2, 7)].to_generator()).len()', 's1().add(2).len()', 's1().contains(2)', 's1().remove(2).len()', 's1().discard(2).len()',
                  '[1, 2].to_generator().distinct(hf, ef).to_array()', '[1, 2].to_generator().with_count(hf, ef).to_array().len()']
        ejobs = [{'id': f'e{i}', 'src': PRE + f'fn f()->str {{ to_str({op}) }}', 'calls': ['f']} for i, op in enumerate(EQ_OPS)]
        eres = core.run_harness(ctx['binary'], ejobs, os.path.join(workdir, 'he'))
        for job, op in zip(ejobs, EQ_OPS):
            r = eres.get(job['id'])
            n_eval += 1
            if r is None or r.get('compile') != 'ok':
                print('EQ-FORM-NOT-COMPILING', op, (r and r.get('compile') or '')[:200].replace('\n', ' '), flush=True)
                continue
            out = r['calls'][0]
            if not (out.startswith('E:') and 'eqfail' in out):
                violations.append({'what': f'{op}: the error produced by the equality callback while an occupied bucket was searched must be the result of the operation',
                                   'case': {'src': job['src']}, 'impl': out[:200], 'model': 'E:eqfail'})
            else:
                distinct += 1
        ctx['coverage'] = {'evaluations': n_eval, 'distinct_nontrivial': distinct, 'samples': samples, 'injection_programs': len(jobs), 'violation_points': len(vjobs), 'forms': len(fjobs),
                           'callback_error_forms': len(ejobs)}
        return violations


PROP = C06()
