"""C20, JSON part: correspondence between the Coq model (coq/Conv/Json.v: serialiser + RFC 8259 reader, proved to round-trip)
and the interpreter (`json(...)`, `serialize`, `json_deserialize`).

 phase 1 (interpreter): for a generated document D
      s  = serialize(<D built with the json(...) constructors>)           exact text
      g  = json_deserialize(s) == value                                     the property's second half
      h  = serialize(json_deserialize(<another spelling of D or a mutation of it>))
 phase 2 (Coq, vm_compute):  jcheck_ser D s   ("exact" / "equiv" = other member order of the same document)
                             the spelling read by the model is D; h read by the model is what the model read from the spelling;
                             a text the model rejects is rejected by the interpreter and vice versa.
 floats: the model's number is the canonical decimal (sign, digits, point position) of the float's shortest repr, computed here
 with Python's repr (same shortest digits as Rust's `{:?}`); numbers are kept to <= 9 significant digits and |exponent| <= 300 so
 that every spelling denotes exactly one double."""
import os
import re
from decimal import Decimal

from lib import core

class Obj(list):
    """a JSON object: list of (key, value) pairs with distinct keys"""


NUM_RE = re.compile(r'-?\d+(?:\.\d+)?(?:[eE][+-]?\d+)?')


def dec_of_float(x):
    if x == 0:
        return (False, [], 0)
    t = Decimal(repr(float(x))).as_tuple()
    ds, e = list(t.digits), t.exponent
    while ds and ds[-1] == 0:
        ds.pop()
        e += 1
    while ds and ds[0] == 0:
        ds.pop(0)
    return (x < 0, ds, len(ds) + e)


def coq_cps(s):
    return '[' + '; '.join(str(ord(c)) for c in s) + ']'


def coq_json(d):
    if d is None:
        return 'JNull'
    if d is True:
        return '(JBool true)'
    if d is False:
        return '(JBool false)'
    if isinstance(d, (int, float)):
        neg, ds, k = dec_of_float(float(d))
        return f'(JNum (mkd {"true" if neg else "false"} [{"; ".join(map(str, ds))}] ({k})))'
    if isinstance(d, str):
        return f'(JStr {coq_cps(d)})'
    if isinstance(d, list) and not isinstance(d, Obj):
        return '(JArr [' + '; '.join(coq_json(x) for x in d) + '])'
    return '(JObj [' + '; '.join(f'({coq_cps(k)}, {coq_json(v)})' for k, v in d) + '])'


def xr_str(s):
    m = {'\\': '\\\\', '"': '\\"', '\n': '\\n', '\t': '\\t', '\r': '\\r', '\0': '\\0'}
    return '"' + ''.join(m.get(c, c) for c in s) + '"'


def xr_float(x):
    rr = repr(abs(float(x)))
    if 'e' in rr and '.' not in rr:
        mm, ee = rr.split('e')
        rr = mm + '.0e' + ee
    rr = rr.replace('e+', 'e')
    if 'e' not in rr and '.' not in rr:
        rr += '.0'
    return f'(-{rr})' if x < 0 or (x == 0 and str(x).startswith('-')) else rr


def xr_json(d):
    """objects are lists of (key, value) pairs with distinct keys"""
    if d is None:
        return 'json(())'
    if d is True:
        return 'json(true)'
    if d is False:
        return 'json(false)'
    if isinstance(d, (int, float)):
        return f'json({xr_float(d)})'
    if isinstance(d, str):
        return f'json({xr_str(d)})'
    if isinstance(d, list) and not isinstance(d, Obj):
        if not d:
            return 'JSON::array([])'
        return 'JSON::array([' + ', '.join(xr_json(x) for x in d) + '])'
    m = 'mapping<str, JSON>(hash{str}, eq{str, str})' if False else 'jsonobj()'
    for k, v in d:
        m += f'.set({xr_str(k)}, {xr_json(v)})'
    return f'JSON::object({m})'


PRE = 'fn jsonobj()->Mapping<str, JSON>{ mapping<str>() }\n'

CHARS = ['a', 'b', 'Z', '0', ' ', '"', '\\', '/', '\n', '\t', '\r', '\x08', '\x0c', '\x01', '\x1f', '\x00', '\x7f', '\x80', 'é', '€', '\U0001F600',
         '​', '퟿', '', '\U0010ffff', '{', ']', ':', ',', "'", 'u', '\x1b']


def gen_number(rng):
    k = rng.random()
    if k < 0.25:
        return float(rng.choice([0, 1, -1, 12345, 10, 100, -1000, 2 ** 31, 999999999, rng.randint(-10 ** 8, 10 ** 8)]))
    if k < 0.5:
        return rng.choice([0.5, -0.25, 1e16, 1e15, 9.99999e15, 123456789e7, 1e-4, 0.0001234, 9.9e-5, 1e-5, 1.5e-7, 1e300, -1e300, 1e-300, 5e-300, 1e21, 1.5e22,
                           1e17, 0.001, 0.1, -0.0, 123456.789, 1.25e-5, 7e16, 3e-4])
    m = rng.randint(1, 999999999)
    e = rng.choice([0, 0, -1, -3, -9, -12, 5, 9, 12, 20, -20, 100, -100, rng.randint(-290, 290)])
    x = float(f'{rng.choice(["", "-"])}{m}e{e}')
    return x


def gen_doc(rng, depth=0, maxdepth=5):
    r = rng.random()
    if depth >= maxdepth or r < 0.4:
        k = rng.random()
        if k < 0.2:
            return rng.choice([None, True, False])
        if k < 0.6:
            return gen_number(rng)
        return ''.join(rng.choice(CHARS) for _ in range(rng.randint(0, 7)))
    if r < 0.72:
        return [gen_doc(rng, depth + 1, maxdepth) for _ in range(rng.randint(0, 4))]
    keys, out = set(), Obj()
    for _ in range(rng.randint(0, 4)):
        k = ''.join(rng.choice(['k', 'x', 'y', '"', '\\', 'é', '\n', ' ', '\x02', '\U0001F600', '']) for _ in range(rng.randint(0, 3)))
        if k not in keys:
            keys.add(k)
            out.append((k, gen_doc(rng, depth + 1, maxdepth)))
    return out


def spell_string(rng, s):
    out = ['"']
    for c in s:
        o = ord(c)
        r = rng.random()
        simple = {'"': '\\"', '\\': '\\\\', '\n': '\\n', '\t': '\\t', '\r': '\\r', '\x08': '\\b', '\x0c': '\\f'}
        if c in simple and r < 0.7:
            out.append(simple[c])
        elif c == '/' and r < 0.5:
            out.append('\\/')
        elif o < 0x20 or c in '"\\' or r < 0.25:
            if o >= 0x10000:
                v = o - 0x10000
                hi, lo = 0xd800 + (v >> 10), 0xdc00 + (v & 0x3ff)
                out.append('\\u%04x\\u%04X' % (hi, lo))
            else:
                out.append(('\\u%04x' if rng.random() < 0.5 else '\\u%04X') % o)
        else:
            out.append(c)
    out.append('"')
    return ''.join(out)


def spell_number(rng, x):
    if x == 0:
        return rng.choice(['0', '-0', '0.0', '0e5', '0.000', '-0.0E-3'])
    neg, ds, k = dec_of_float(x)
    digits = ''.join(map(str, ds))
    style = rng.randint(0, 4)
    sign = '-' if neg else ''
    if style == 0:      # d.ddd e x
        body = digits[0] + ('.' + digits[1:] if len(digits) > 1 else '') + rng.choice(['e', 'E']) + rng.choice(['', '+'] if k - 1 >= 0 else ['']) + str(k - 1)
    elif style == 1:    # integer mantissa with exponent
        body = digits + rng.choice(['e', 'E']) + str(k - len(digits))
    elif style == 2 and -6 <= k <= 20:   # positional
        if k <= 0:
            body = '0.' + '0' * (-k) + digits
        elif k >= len(digits):
            body = digits + '0' * (k - len(digits)) + rng.choice(['', '.0', '.000'])
        else:
            body = digits[:k] + '.' + digits[k:] + rng.choice(['', '0', '00'])
    elif style == 3:    # 0.ddd e k
        body = '0.' + digits + 'e' + str(k)
    else:
        body = digits + '0' + 'e' + str(k - len(digits) - 1)
    return sign + body


def spell(rng, d, ws=True):
    def w():
        return rng.choice(['', '', ' ', '\n', '\t', '\r', '  ']) if ws else ''
    if d is None:
        return 'null'
    if d is True:
        return 'true'
    if d is False:
        return 'false'
    if isinstance(d, (int, float)):
        return spell_number(rng, float(d))
    if isinstance(d, str):
        return spell_string(rng, d)
    if isinstance(d, list) and not isinstance(d, Obj):
        return '[' + w() + (',' + w()).join(w() + spell(rng, x, ws) + w() for x in d) + w() + ']'
    return '{' + w() + ','.join(w() + spell_string(rng, k) + w() + ':' + w() + spell(rng, v, ws) + w() for k, v in d) + w() + '}'


INVALID = ['', ' ', '[', ']', '{', '}', '[1,]', '[,1]', '[1 2]', '{"a":1,}', '{"a"}', '{"a":}', '{a:1}', "{'a':1}", '[1]]', '[1] x', 'nul', 'tru', 'True', 'NaN',
           'Infinity', '-Infinity', '01', '-01', '1.', '.5', '+1', '1e', '1e+', '-', '--1', '1.e5', '0x10', '1_000', '"abc', '"a\\x"', '"\\u12"', '"\\ud800"',
           '"\\udc00"', '"\\ud800\\u0041"', '"\\ud800x"', '"a\nb"', '"a\tb"', '"\x01"', '"\\u00zz"', '[1,,2]', '{"a":1 "b":2}', '{"a":1,,"b":2}', '{"a"::1}',
           '[}', '{]', '"a" "b"', '1 2', 'null null', '[null,]', '﻿1', '1\x00', '\x0b1', '1\x0c', '"\\a"', '"\\\'"', '"\\U0041"', '[1.5.2]', '1e5e5', '1e1.5']
VALID_EXTRA = ['null', ' true ', '\nfalse\r\n', '0', '-0', '-0.0', '1E2', '1e+2', '1e-2', '0.5e1', '"\\/"', '"\\u0041\\u00e9\\ud83d\\ude00"', '[ ]', '{ }', '[[[]]]',
               '{"a":{"a":{"a":[]}}}', '{"a":1,"a":2}', '{"b":1,"a":2,"b":3}', '"\x7f"', '" "', '[1e0,10e-1,0.1e1,1.000]', '\t[\n1\r,\t2 ]\n', '"\\"\\\\\\b\\f\\n\\r\\t"']


def number_tokens_ok(text):
    """every number token denotes one double exactly (<= 15 significant digits, no overflow / underflow)"""
    stripped = re.sub(r'"(?:[^"\\]|\\.)*"', '""', text)
    for tok in NUM_RE.findall(stripped):
        try:
            d = Decimal(tok)
        except Exception:
            return False
        try:
            if d == 0:
                continue
            if abs(d.adjusted()) > 400:
                return False
            t = d.normalize().as_tuple()
        except Exception:
            return False
        if len(t.digits) > 15:
            return False
        mag = len(t.digits) + t.exponent
        if mag > 305 or mag < -300:
            return False
    return True


def mutate(rng, text):
    if not text:
        return text
    alphabet = '{}[],:"\\ 0123456789eE.+-trufalsn\n\t/x'
    k = rng.random()
    i = rng.randrange(len(text))
    if k < 0.35:
        return text[:i] + text[i + 1:]
    if k < 0.7:
        return text[:i] + rng.choice(alphabet) + text[i:]
    if k < 0.85:
        return text[:i] + rng.choice(alphabet) + text[i + 1:]
    j = rng.randrange(len(text))
    a, b = min(i, j), max(i, j)
    return text[:a] + text[b:]


def canon_doc(d):
    """expected document of a spelling (objects as pair lists; duplicates are not generated here)"""
    return d


def run(ctx, rng, tier):
    n = 150 if tier == 'quick' else 1500
    workdir = os.path.join(ctx['workdir'], 'json_model')
    jobs, meta = [], []
    for i in range(n):
        doc = gen_doc(rng, 0, rng.choice([2, 3, 5]))
        variant = spell(rng, doc)
        src = (PRE + f'let v = {xr_json(doc)};\nlet s = v.serialize();\nfn f()->str{{ s }}\nfn g()->bool{{ json_deserialize(s) == v }}\n'
               f'let t = {xr_str(variant)};\nfn h()->str{{ json_deserialize(t).serialize() }}\nfn k()->bool{{ json_deserialize(t) == v }}')
        jobs.append({'id': f'm{i}', 'src': src, 'calls': ['f', 'g', 'h', 'k']})
        meta.append(('doc', doc, variant))
    # texts: designated valid / invalid + mutations of valid spellings
    texts = [(t, 'designated-invalid') for t in INVALID] + [(t, 'designated-valid') for t in VALID_EXTRA]
    for i in range(n):
        doc = gen_doc(rng, 0, 3)
        t = spell(rng, doc, ws=rng.random() < 0.5)
        for _ in range(rng.randint(1, 2)):
            t = mutate(rng, t)
        if number_tokens_ok(t) and '\x00' not in t:
            texts.append((t, 'mutation'))
    # nesting around the reader's recursion limit (known finding at 128)
    for depth in (100, 126, 127, 128, 129, 200):
        texts.append(('[' * depth + ']' * depth, f'nest{depth}'))
        texts.append(('{"a":' * (depth - 1) + '{}' + '}' * (depth - 1), f'onest{depth}'))
    for i, (t, kind) in enumerate(texts):
        src = f'let t = {xr_str(t)};\nfn h()->str{{ json_deserialize(t).serialize() }}'
        jobs.append({'id': f't{i}', 'src': src, 'calls': ['h']})
        meta.append(('text', t, kind))
    # a value nested 127 / 128 deep built in the language: serialised, then read back
    for depth in (127, 128):
        src = ('fn nest(n: int, acc: JSON)->JSON{ if(n == 0, acc, nest(n - 1, JSON::array([acc]))) }\n'
               f'let v = nest({depth - 1}, JSON::array([]));\nlet s = v.serialize();\nfn f()->int{{ s.len() }}\nfn g()->bool{{ json_deserialize(s) == v }}')
        jobs.append({'id': f'd{depth}', 'src': src, 'calls': ['f', 'g']})
        meta.append(('deep', depth, None))
    res = core.run_harness(ctx['binary'], jobs, os.path.join(workdir, 'h'), timeout=300)
    violations = []
    terms, tmeta = [], []

    def cps_of(s):
        return '[' + '; '.join(str(ord(c)) for c in s) + ']'
    for job, m in zip(jobs, meta):
        r = res.get(job['id'])
        if r is None or r.get('compile') != 'ok':
            raise core.CheckError(f'JSON model job failed to compile: {r and r.get("compile")}\n{job["src"][:400]}')
        if r.get('inst') != 'ok':
            violations.append({'what': 'building / serialising a JSON value ended without a value', 'case': {'src': job['src']}, 'impl': r.get('inst')})
            continue
        calls = r['calls']
        if m[0] == 'doc':
            _, doc, variant = m
            f, g, h, k = calls
            case = {'src': job['src']}
            if not f.startswith('s:'):
                violations.append({'what': 'serialising a JSON value failed', 'case': case, 'impl': f[:200]})
                continue
            terms.append(f'jcheck_ser {coq_json(doc)} {cps_of(f[2:])}')
            tmeta.append(('ser', case, doc, f[2:]))
            if g != 'b:true':
                violations.append({'what': 'deserialising the serialised text does not return an equal value', 'case': case, 'impl': g})
            terms.append(f'jcheck_read {cps_of(variant)} {coq_json(doc)}')
            tmeta.append(('spelling-model', case, doc, variant))
            if not h.startswith('s:'):
                violations.append({'what': 'a valid spelling of a document is rejected by json_deserialize', 'case': dict(case, text=variant), 'impl': h[:200]})
            else:
                terms.append(f'jcheck_read {cps_of(h[2:])} {coq_json(doc)}')
                tmeta.append(('spelling-impl', case, doc, h[2:]))
            if k != 'b:true':
                violations.append({'what': 'another spelling of the same document deserialises to a different value', 'case': dict(case, text=variant), 'impl': k})
        elif m[0] == 'text':
            _, t, kind = m
            h = calls[0]
            case = {'src': job['src'], 'text': t, 'kind': kind}
            if h.startswith('s:'):
                terms.append(f'match jparse {cps_of(t)} with Some w => jcheck_ser w {cps_of(h[2:])} | None => "rejected" end')
                tmeta.append(('text-accepted', case, kind, h[2:]))
            elif h.startswith('E:'):
                terms.append(f'jcheck_accepts {cps_of(t)}')
                tmeta.append(('text-rejected', case, kind, h))
            else:
                violations.append({'what': 'json_deserialize of a text ended in neither a value nor an error value', 'case': case, 'impl': h[:200]})
        else:
            depth = m[1]
            f, g = calls
            case = {'src': job['src'], 'depth': depth}
            if g == 'b:true':
                if depth >= 128:
                    violations.append({'what': 'MODEL: the reader accepted a document nested 128 deep; the model (recursion limit 128) says it cannot',
                                       'case': case, 'impl': g, 'broken_correspondence': 'Conv/Json.v depth_limit'})
            else:
                e = next((e for e in ctx['known'] if e.get('id') == 'C20-json-depth-128'), None)
                if depth >= 128 and e is not None and g.startswith('E:'):
                    ctx['known_hit'][e['id']] = (e, None, g, 'b:true')
                else:
                    violations.append({'what': f'a JSON value nested {depth} deep is serialised but deserialising the text does not give the value back', 'case': case, 'impl': g})
    imports = ('From Coq Require Import List ZArith String.\nFrom Xr Require Import Conv.Json Conv.JsonInst.\nImport ListNotations.\nOpen Scope Z_scope.\n')
    out = core.coq_eval(terms, imports, os.path.join(workdir, 'coq'), name='json', shard_size=60)
    fails = sum(1 for o in out if o is None)
    if fails > max(3, len(terms) // 20):
        raise core.CheckError(f'{fails} of {len(terms)} JSON model evaluations failed inside coqc')
    distinct = 0
    kinds = {}
    samples = []
    for o, tm in zip(out, tmeta):
        if o is None:
            continue
        what, case, a, b = tm
        kinds[what + ':' + o] = kinds.get(what + ':' + o, 0) + 1
        if what == 'ser':
            multi = has_multi(a)
            if o == 'exact' or (o == 'equiv' and multi):
                distinct += 1
                if len(samples) < 3 and len(b) > 30:
                    samples.append({'serialised': b[:160], 'model': o})
            else:
                violations.append({'what': f'serialize(v) is not the text the proved model writes ({o})', 'case': case, 'impl': b[:400], 'model': o})
        elif what == 'spelling-model':
            if o != 'same':
                violations.append({'what': f'MACHINERY: the model reads a generated spelling as another document ({o})', 'case': dict(case, text=b), 'model': o})
        elif what == 'spelling-impl':
            if o != 'same':
                violations.append({'what': f'json_deserialize of a valid spelling gives another document than the model reads ({o})', 'case': case, 'impl': b[:400], 'model': o})
            else:
                distinct += 1
        elif what == 'text-accepted':
            if o == 'rejected':
                if a.startswith('nest') or a.startswith('onest'):
                    violations.append({'what': 'the reader accepts nesting the model (recursion limit 128) rejects', 'case': case, 'impl': b[:200], 'model': o,
                                       'broken_correspondence': 'Conv/Json.v depth_limit'})
                else:
                    violations.append({'what': 'json_deserialize accepts a text that is not JSON (RFC 8259 reader of the model rejects it)', 'case': case, 'impl': b[:300], 'model': o})
            elif o in ('exact', 'equiv'):
                distinct += 1
            else:
                violations.append({'what': f'json_deserialize reads a text as another document than the model ({o})', 'case': case, 'impl': b[:300], 'model': o})
        elif what == 'text-rejected':
            if o == 'accepted':
                violations.append({'what': 'json_deserialize rejects a valid JSON text', 'case': case, 'impl': b[:300], 'model': o})
            else:
                distinct += 1
    cov = {'json_model_evaluations': len(terms), 'json_model_outcomes': kinds, 'json_model_samples': samples}
    return violations, len(jobs) + len(terms), distinct, cov


def has_multi(d):
    if isinstance(d, Obj):
        return len(d) > 1 or any(has_multi(v) for _, v in d)
    if isinstance(d, list):
        return any(has_multi(x) for x in d)
    return False
