#!/bin/sh
# builds the framework from files on disk only (offline): the Coq project (full .vo build) and the harness
set -e
cd "$(dirname "$0")"
mkdir -p .build evidence
export CARGO_NET_OFFLINE=true CARGO_TARGET_DIR="$PWD/.build/cargo" RUSTFLAGS="--cfg xray_verif"
python3 lib/extract.py >/dev/null
# a stale or truncated dependency file would let make compile files before their dependencies: always regenerate it
rm -f coq/.Makefile.d coq/Makefile coq/Makefile.conf
( cd coq && coq_makefile -f _CoqProject -o Makefile >/dev/null && timeout 3000 make -j16 >../.build/coq_build.log 2>&1 ) || { tail -40 .build/coq_build.log; exit 1; }
cp /repo/Cargo.lock harness/Cargo.lock
( cd harness && cargo build --offline >../.build/cargo_build.log 2>&1 ) || { tail -40 .build/cargo_build.log; exit 1; }
echo setup ok
